//! Native replay of a scenario on a concrete input script (the byte vectors of a Kani
//! counterexample, or an empty script = all-zero choices). The code under test is the same
//! spliced real source, compiled natively.
//! usage: hxreplay <scenario> [script.json]   script = [[b,b,..],[..],..]
#[cfg(kani)]
fn main() {}

#[cfg(not(kani))]
fn main() {
    use std::panic;
    let args: Vec<String> = std::env::args().collect();
    if args.len() < 2 {
        for (n, _) in hx::registry() {
            println!("{}", n);
        }
        return;
    }
    let name = &args[1];
    let script: Vec<Vec<u8>> = if args.len() > 2 {
        let txt = std::fs::read_to_string(&args[2]).expect("script file");
        let v: serde_json::Value = serde_json::from_str(&txt).expect("json");
        let arr = if v.is_array() { v } else { v["script"].clone() };
        arr.as_array()
            .expect("array")
            .iter()
            .map(|x| x.as_array().unwrap().iter().map(|b| b.as_u64().unwrap() as u8).collect())
            .collect()
    } else {
        Vec::new()
    };
    let f = hx::registry().into_iter().find(|(n, _)| n == name).map(|x| x.1);
    let Some(f) = f else {
        eprintln!("unknown scenario {}", name);
        std::process::exit(3);
    };
    hx::env::nd::native::load(script);
    panic::set_hook(Box::new(|_| {}));
    let r = panic::catch_unwind(f);
    let mut fails: Vec<String> = hx::env::nd::native::fails().iter().map(|s| s.to_string()).collect();
    if let Err(e) = r {
        if !hx::env::nd::native::assume_failed() {
            let msg = e
                .downcast_ref::<String>()
                .cloned()
                .or_else(|| e.downcast_ref::<&str>().map(|s| s.to_string()))
                .unwrap_or_else(|| "panic".into());
            fails.push(format!("panic: {}", msg));
        }
    }
    let out = serde_json::json!({
        "scenario": name,
        "fails": fails,
        "covers": hx::env::nd::native::covers(),
        "tags": hx::env::nd::native::tags(),
        "assume_failed": hx::env::nd::native::assume_failed(),
        "script_exhausted": unsafe { hx::env::nd::native::EXHAUSTED },
    });
    println!("{}", out);
}
