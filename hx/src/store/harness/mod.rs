//! Harnesses over the spliced real `store` module (child module: sees private items).
use super::*;
use crate::env;

pub mod util;

crate::pooled!(Frame, POOL_FRAME);
crate::pooled!(GCTask, POOL_GC);

/// native runs share statics across scenarios
pub fn reset_pools() {
    use env::pool::Pooled;
    Frame::pool().reset();
    GCTask::pool().reset();
    <()>::pool().reset();
    <(Option<Scru128Id>, usize)>::pool().reset();
}

impl env::tokio::sync::broadcast::BroadcastId for Frame {
    fn bid(&self) -> u128 {
        self.id.to_u128()
    }
}

pub mod k_keys;
pub mod o_ops;
pub mod k_ttl;
pub mod p_read;
pub mod p_writers;
