//! Harnesses over the spliced real `store` module (child module: sees private items).
use super::*;
use crate::env;

pub mod util;

crate::pooled!(Frame, POOL_FRAME);
crate::pooled!(GCTask, POOL_GC);

/// native runs share statics across scenarios
pub fn reset_pools() {
    use env::pool::Pooled;
    Frame::pool().reset();
    GCTask::pool().reset();
    <()>::pool().reset();
    <(Option<Scru128Id>, usize)>::pool().reset();
}

impl env::tokio::sync::broadcast::BroadcastId for Frame {
    fn bid(&self) -> u128 {
        self.id.to_u128()
    }
}

pub mod k_keys;
pub mod o_ops;
pub mod k_ttl;
pub mod p_read;
pub mod p_writers;

/// Stub for `core::slice::memchr::memchr` (what `topic.as_bytes().contains(&0)` compiles to) in
/// harnesses whose precondition is "topics are NUL-free": the assumption is placed *at the point
/// of use*, so the rejected-topic path is cut before it can merge with the accepted one (even
/// literal topics are opaque to CBMC once they went through `to_string()`'s memcpy).
#[cfg(kani)]
pub fn memchr_absent(x: u8, text: &[u8]) -> Option<usize> {
    let mut i = 0;
    while i < text.len() {
        if text[i] == x {
            kani::assume(false);
        }
        i += 1;
    }
    None
}
