//! Harnesses over the spliced real `store` module (child module: sees private items).
use super::*;
use crate::env;

pub mod util;

impl env::tokio::sync::broadcast::BroadcastId for Frame {
    fn bid(&self) -> u128 {
        self.id.to_u128()
    }
}

pub mod k_keys;
pub mod dbg;
pub mod o_ops;
pub mod k_ttl;
