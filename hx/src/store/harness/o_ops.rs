//! O harnesses: one real store operation from a symbolic reachable state.
//! The pre-state is produced by the real `insert_frame` (import) of k symbolic ghost frames,
//! optionally followed by real `remove`s - every store state is reachable that way (any
//! history's surviving set can be imported), so the harness quantifies over states, not
//! histories. The oracle is a few lines over the ghost set.
use super::super::*;
use super::k_keys::sym_topic;
use super::util::*;
use crate::env::{self, nd};
use crate::{hx_check, hx_cover};

#[derive(Clone)]
pub struct Ghost {
    pub f: Frame,
    pub present: bool,
}

pub fn mk_frame(topic: String, ctx: u128, id: u128, ttl: Option<TTL>) -> Frame {
    Frame {
        topic,
        context_id: Scru128Id::from_u128(ctx),
        id: Scru128Id::from_u128(id),
        hash: None,
        meta: None,
        ttl,
    }
}

pub fn nul_free(s: &str) -> bool {
    let b = s.as_bytes();
    let mut i = 0;
    while i < b.len() {
        if b[i] == 0 {
            return false;
        }
        i += 1;
    }
    true
}

/// symbolic NUL-free topic of exactly L bytes
pub fn topic<const L: usize>() -> String {
    let t = sym_topic::<L>();
    nd::assume(nul_free(&t));
    t
}

/// install ghost frames through the real import path, then clear the effect trace
pub fn install(sut: &Sut, g: &[Ghost]) {
    let mut i = 0;
    while i < g.len() {
        let r = sut.store.insert_frame(&g[i].f);
        hx_check!(r.is_ok(), "C20 import of a NUL-free frame is accepted");
        i += 1;
    }
    let mut i = 0;
    while i < g.len() {
        if !g[i].present {
            let r = sut.store.remove(&g[i].f.id);
            hx_check!(r.is_ok(), "remove of a stored frame succeeds");
        }
        i += 1;
    }
    env::trace::reset();
}

/// reference: newest present ghost with exactly this topic and context
pub fn ref_head(g: &[Ghost], topic: &str, ctx: Scru128Id) -> Option<Scru128Id> {
    let mut best: Option<Scru128Id> = None;
    let mut i = 0;
    while i < g.len() {
        let f = &g[i].f;
        if g[i].present && f.context_id == ctx && f.topic.as_bytes() == topic.as_bytes() {
            best = match best {
                None => Some(f.id),
                Some(b) => Some(if f.id > b { f.id } else { b }),
            };
        }
        i += 1;
    }
    best
}


// ---------------------------------------------------------------------------------------
// Concrete adversarial base states (built through the REAL append / insert_frame), against
// which ONE symbolic element (query, frame, id, GC task, clock ...) is quantified by the
// solver. Fully symbolic multi-frame states do not get through CBMC (probes: 2 symbolic
// frames + head = >8 min / OOM); pairwise byte-level interplay of two symbolic topics /
// contexts is covered by the K lemmas (k_prefix_exact, k_ctx_range, k_key_order).
// ---------------------------------------------------------------------------------------
pub const TS: u128 = 1u128 << 80; // one millisecond in the id's timestamp field
/// two registered contexts with numerically ADJACENT ids
pub const CA: u128 = 1000 * TS + 7;
pub const CB: u128 = CA + 1;
pub const I3: u128 = 1001 * TS;
pub const I4: u128 = 1002 * TS;
pub const I5: u128 = 1003 * TS;
pub const I6: u128 = 1004 * TS;
pub const I7: u128 = 1005 * TS;

pub fn sid(v: u128) -> Scru128Id {
    Scru128Id::from_u128(v)
}

/// append through the real `Store::append` with a chosen id (the id generator is environment)
pub fn append_with_id(sut: &Sut, topic: &str, ctx: u128, id: u128, ttl: Option<TTL>) -> Frame {
    env::scru::force_next(id);
    let r = sut.store.append(Frame {
        topic: topic.to_string(),
        context_id: sid(ctx),
        id: sid(0),
        hash: None,
        meta: None,
        ttl,
    });
    match r {
        Ok(f) => f,
        Err(_) => {
            nd::assume(false);
            unreachable!()
        }
    }
}

/// S1: contexts 0, CA, CB=CA+1; prefix-related topics; same topic in three contexts;
/// two frames of one (context, topic). Returns the ghost list (what must be stored).
pub fn base_s1(sut: &Sut) -> Vec<Ghost> {
    let mut g = Vec::with_capacity(8);
    g.push(Ghost { f: append_with_id(sut, "xs.context", 0, CA, None), present: true });
    g.push(Ghost { f: append_with_id(sut, "xs.context", 0, CB, None), present: true });
    g.push(Ghost { f: append_with_id(sut, "a", 0, I3, None), present: true });
    g.push(Ghost { f: append_with_id(sut, "ab", CA, I4, None), present: true });
    g.push(Ghost { f: append_with_id(sut, "a", CA, I5, None), present: true });
    g.push(Ghost { f: append_with_id(sut, "a", CB, I6, None), present: true });
    g.push(Ghost { f: append_with_id(sut, "a", CA, I7, None), present: true });
    env::trace::reset();
    g
}

/// C05/C06: symbolic query (every NUL-free UTF-8 topic of Q bytes, every context id)
/// against S1: head is the newest frame of exactly that topic in exactly that context.
pub fn o_head_q<const Q: usize>() {
    env::reset_all();
    env::fjall::set_limit(7);
    let sut = mk_store(2);
    let g = base_s1(&sut);
    let qt = topic::<Q>();
    let qc = sid(nd::any_u128());
    let got = sut.store.head(&qt, qc).map(|f| f.id);
    let want = ref_head(&g, &qt, qc);
    hx_check!(got == want, "C05 head(topic, ctx) is the newest frame of exactly that topic in that context");
    if Q == 1 {
        hx_cover!(want == Some(sid(I7)), "head is the newer of two frames of (CA, a)");
        hx_cover!(want == Some(sid(I6)), "head of the adjacent context CB");
    }
    if Q == 2 {
        hx_cover!(want == Some(sid(I4)), "head of the longer prefix-related topic");
    }
    hx_cover!(want.is_none() && qc == sid(CA), "no such topic in a context that has frames");
    core::mem::forget(sut);
    core::mem::forget(g);
}

/// C05/C06: head(topic, ctx) == newest frame of exactly that topic in exactly that context.
/// Three stored frames with topic lengths (A,B,C), query topic length Q; contexts and ids
/// fully symbolic (so equal / adjacent / zero contexts and prefix-related topics all occur).
pub fn o_head<const A: usize, const B: usize, const C: usize, const Q: usize>() {
    env::reset_all();
    env::fjall::set_limit(3);
    let sut = mk_store(2);
    let id0 = nd::any_u128();
    let id1 = nd::any_u128();
    let id2 = nd::any_u128();
    nd::assume(id0 < id1 && id1 < id2);
    let c0 = nd::any_u128();
    let c1 = nd::any_u128();
    let c2 = nd::any_u128();
    let g = [
        Ghost { f: mk_frame(topic::<A>(), c0, id0, None), present: true },
        Ghost { f: mk_frame(topic::<B>(), c1, id1, None), present: nd::any_bool() },
        Ghost { f: mk_frame(topic::<C>(), c2, id2, None), present: nd::any_bool() },
    ];
    install(&sut, &g);
    let qt = topic::<Q>();
    let qc = Scru128Id::from_u128(nd::any_u128());
    let got = sut.store.head(&qt, qc).map(|f| f.id);
    let want = ref_head(&g, &qt, qc);
    hx_check!(got == want, "C05 head(topic, ctx) is the newest frame of exactly that topic in that context");
    hx_cover!(want.is_some() && want != Some(g[2].f.id), "head is an older frame (newer ones differ in topic/context or were removed)");
    hx_cover!(want.is_none() && c0 == qc.to_u128(), "no head although the context has frames");
    core::mem::forget(sut);
}

crate::scenarios! {
    unwind 50;
    o_head_q_0 => o_head_q::<0>();
    o_head_q_1 => o_head_q::<1>();
    o_head_q_2 => o_head_q::<2>();
    o_head_q_3 => o_head_q::<3>();
}

#[cfg(kani)]
mod probe {
    use super::*;
    #[kani::proof]
    #[kani::unwind(50)]
    fn c1() {
        env::fjall::set_limit(7);
        let sut = mk_store(2);
        let g = base_s1(&sut);
        assert!(env::fjall::live_count(0) == 7);
        core::mem::forget(sut);
        core::mem::forget(g);
    }
}
