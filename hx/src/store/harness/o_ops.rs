//! O harnesses: one real store operation from a symbolic reachable state.
//! The pre-state is produced by the real `insert_frame` (import) of k symbolic ghost frames,
//! optionally followed by real `remove`s - every store state is reachable that way (any
//! history's surviving set can be imported), so the harness quantifies over states, not
//! histories. The oracle is a few lines over the ghost set.
use super::super::*;
use super::k_keys::sym_topic;
use super::util::*;
use crate::env::{self, nd};
use crate::{hx_check, hx_cover};

#[derive(Clone)]
pub struct Ghost {
    pub f: Frame,
    pub present: bool,
}

pub fn mk_frame(topic: String, ctx: u128, id: u128, ttl: Option<TTL>) -> Frame {
    Frame {
        topic,
        context_id: Scru128Id::from_u128(ctx),
        id: Scru128Id::from_u128(id),
        hash: None,
        meta: None,
        ttl,
    }
}

pub fn nul_free(s: &str) -> bool {
    let b = s.as_bytes();
    let mut i = 0;
    while i < b.len() {
        if b[i] == 0 {
            return false;
        }
        i += 1;
    }
    true
}

/// symbolic NUL-free topic of exactly L bytes
pub fn topic<const L: usize>() -> String {
    let t = sym_topic::<L>();
    nd::assume(nul_free(&t));
    t
}

/// Put one ghost frame into the model partitions. The three keys come from the REAL key
/// functions (so a consistent change of layout cannot cause a false alarm); the writes themselves
/// are model-level. Why not the real `insert_frame` here: its NUL check forks on the symbolic
/// topic, CBMC then merges an "inserted" with a "rejected" store state, and every later operation
/// pays for the symbolic slot counters (probe: one symbolic stored/ephemeral choice before two
/// more operations = OOM at 40 GB; the same choice as the LAST step = 50 s). The real
/// `insert_frame` is itself the operation under test in o_insert / o_reimport.
pub fn install_one(f: &Frame) {
    let tk = match idx_topic_key_from_frame(f) {
        Ok(k) => k,
        Err(_) => {
            nd::assume(false);
            return;
        }
    };
    let ck = idx_context_key_from_frame(f);
    let val = match crate::env::json::to_vec(&f) {
        Ok(v) => v,
        Err(_) => {
            nd::assume(false);
            return;
        }
    };
    env::fjall::pre_put(env::fjall::P_STREAM, f.id.as_bytes(), &val);
    env::fjall::pre_put(env::fjall::P_TOPIC, &tk, b"");
    env::fjall::pre_put(env::fjall::P_CTX, &ck, b"");
}
pub fn install(_sut: &Sut, g: &[Ghost]) {
    let mut i = 0;
    while i < g.len() {
        if g[i].present {
            install_one(&g[i].f);
        }
        i += 1;
    }
    env::trace::reset();
}

/// reference: newest present ghost with exactly this topic and context
pub fn ref_head(g: &[Ghost], topic: &str, ctx: Scru128Id) -> Option<Scru128Id> {
    let mut best: Option<Scru128Id> = None;
    let mut i = 0;
    while i < g.len() {
        let f = &g[i].f;
        if g[i].present && f.context_id == ctx && f.topic.as_bytes() == topic.as_bytes() {
            best = match best {
                None => Some(f.id),
                Some(b) => Some(if f.id > b { f.id } else { b }),
            };
        }
        i += 1;
    }
    best
}


// ---------------------------------------------------------------------------------------
// Symbolic reachable state: three frames with fully symbolic context ids, ids (ordered,
// distinct) and topic bytes (every NUL-free UTF-8 string of L bytes), imported through the
// real insert_frame. Frames live in a stack array, never on the heap (see env::pool).
// ---------------------------------------------------------------------------------------
pub const TS: u128 = 1u128 << 80; // one millisecond in the id's timestamp field

pub fn sid(v: u128) -> Scru128Id {
    Scru128Id::from_u128(v)
}

pub fn sym_ttl_time() -> Option<TTL> {
    if nd::any_bool() {
        Some(TTL::Time(Duration::from_millis(nd::any_u64())))
    } else {
        None
    }
}

pub fn sym_state<const L: usize>(with_ttl: bool) -> [Ghost; 3] {
    let id0 = nd::any_u128();
    let id1 = nd::any_u128();
    let id2 = nd::any_u128();
    nd::assume(id0 < id1 && id1 < id2);
    [
        Ghost { f: mk_frame(topic::<L>(), nd::any_u128(), id0, if with_ttl { sym_ttl_time() } else { None }), present: true },
        Ghost { f: mk_frame(topic::<L>(), nd::any_u128(), id1, if with_ttl { sym_ttl_time() } else { None }), present: true },
        Ghost { f: mk_frame(topic::<L>(), nd::any_u128(), id2, if with_ttl { sym_ttl_time() } else { None }), present: true },
    ]
}

/// pull at most N items out of a real iterator into a fixed array of ids
pub fn take_ids<const N: usize>(it: &mut dyn Iterator<Item = Frame>) -> ([u128; N], usize, bool) {
    let mut out = [0u128; N];
    let mut n = 0;
    let mut more = false;
    let mut i = 0;
    while i <= N {
        match it.next() {
            Some(f) => {
                if i < N {
                    out[i] = f.id.to_u128();
                    n += 1;
                } else {
                    more = true;
                }
                core::mem::forget(f);
            }
            None => {
                i = N; // stop
            }
        }
        i += 1;
    }
    (out, n, more)
}

fn topic_eq(a: &str, b: &str) -> bool {
    a.as_bytes() == b.as_bytes()
}

/// install the first N ghosts of a symbolic state (LIMIT/JLIMIT follow N + `extra` later writes)
pub fn setup<const L: usize, const N: usize>(with_ttl: bool, extra: usize) -> (Sut, [Ghost; 3]) {
    env::reset_all();
    env::fjall::set_limit(N + extra);
    let sut = mk_store(2);
    let mut g = sym_state::<L>(with_ttl);
    let mut i = 0;
    while i < 3 {
        if i >= N {
            g[i].present = false;
        }
        i += 1;
    }
    let mut i = 0;
    while i < N {
        install_one(&g[i].f);
        i += 1;
    }
    env::trace::reset();
    (sut, g)
}

/// C05/C06: head(topic, ctx) == newest frame of exactly that topic in exactly that context, over
/// a fully symbolic N-frame state (stored topics L bytes, query topic Q bytes: Q != L exercises
/// prefix-related topics in both directions).
pub fn o_head<const L: usize, const Q: usize, const N: usize>() {
    let (sut, g) = setup::<L, N>(false, 0);
    let qt = topic::<Q>();
    let qc = sid(nd::any_u128());
    let got = sut.store.head(&qt, qc).map(|f| f.id);
    let want = ref_head(&g, &qt, qc);
    hx_check!(got == want, "C05 head(topic, ctx) is the newest frame of exactly that topic in that context");
    hx_cover!(
        (L == Q && want == Some(g[if N >= 2 { N - 2 } else { 0 }].f.id)) || (L != Q && want.is_none() && g[0].f.context_id == qc),
        "equal lengths: head is an older frame (the newest differs in topic or context); different lengths: no head although the context holds a prefix-related topic"
    );
    core::mem::forget(sut);
    core::mem::forget(g);
}

/// C01/C06: iter_frames(ctx | all, last_id) returns exactly the in-scope frames with
/// id > last_id, each once, in increasing id order. SCOPE 0 = all contexts, 1 = one context.
pub fn o_iter<const L: usize, const N: usize, const SCOPE: u8>() {
    let (sut, g) = setup::<L, N>(false, 0);
    let scoped = SCOPE == 1;
    let qc = sid(nd::any_u128());
    // context ids are generator-produced: the all-ones id (48-bit timestamp 2^48-1 ...) cannot occur,
    // and idx_context_key_range_end saturates there on purpose (source comment) - see k_ctx_range
    nd::assume(qc.to_u128() != u128::MAX);
    let has_last = nd::any_bool();
    let last = sid(nd::any_u128());
    let ctx = if scoped { Some(qc) } else { None };
    let (got, n, more) = {
        let mut it = sut.store.iter_frames(ctx, if has_last { Some(&last) } else { None });
        take_ids::<3>(&mut *it)
    };
    let mut want = [0u128; 3];
    let mut m = 0;
    let mut i = 0;
    while i < N {
        let f = &g[i].f;
        if (!scoped || f.context_id == qc) && (!has_last || f.id > last) {
            want[m] = f.id.to_u128();
            m += 1;
        }
        i += 1;
    }
    hx_check!(!more && n == m, "C01 a read returns exactly as many frames as are live, in scope and after last-id");
    hx_check!(got[0] == want[0] && got[1] == want[1] && got[2] == want[2], "C01 reads return the live history in strictly increasing id order, scoped to the context, strictly after last-id");
    hx_cover!(m == N - 1 && has_last, "read with last-id returning all but one frame");
    hx_cover!(
        (scoped && m == 1 && g[0].f.context_id.to_u128().wrapping_add(1) == qc.to_u128()) || (!scoped && has_last && m == 1 && last == g[if N >= 2 { N - 2 } else { 0 }].f.id),
        "scoped: a frame of the numerically adjacent context below is not returned; all: resuming exactly at a member id"
    );
    core::mem::forget(sut);
    core::mem::forget(g);
}

/// C01/C06 with concrete bytes: two frames in a context that is NOT registered (their registration was
/// removed, or they were imported), one frame in the zero context; scoped reads with and without
/// last-id return exactly the context's frames (scoped iteration over >= 2 symbolic frames does not
/// fit in 40 GB).
pub fn iter_ctx_concrete() {
    env::reset_all();
    env::fjall::set_limit(3);
    let sut = mk_store(2);
    let cx = 77u128 << 80;
    let t = 1000u128 << 80;
    let f1 = mk_frame("a".to_string(), cx, t + 1, None);
    let f0 = mk_frame("a".to_string(), 0, t + 2, None);
    let f2 = mk_frame("b".to_string(), cx, t + 3, None);
    install_one(&f1);
    install_one(&f0);
    install_one(&f2);
    env::trace::reset();
    let (a, na, ma) = {
        let mut it = sut.store.iter_frames(Some(sid(cx)), None);
        take_ids::<3>(&mut *it)
    };
    hx_check!(na == 2 && !ma && a[0] == t + 1 && a[1] == t + 3, "C01 a scoped read returns exactly the live frames of that context, in id order");
    let last = sid(t + 1);
    let (b, nb, mb) = {
        let mut it = sut.store.iter_frames(Some(sid(cx)), Some(&last));
        take_ids::<3>(&mut *it)
    };
    hx_check!(nb == 1 && !mb && b[0] == t + 3, "C01 a scoped read starts strictly after last-id");
    let (z, nz, mz) = {
        let mut it = sut.store.iter_frames(Some(ZERO_CONTEXT), None);
        take_ids::<3>(&mut *it)
    };
    hx_check!(nz == 1 && !mz && z[0] == t + 2, "C06 a read scoped to the zero context sees nothing of another context");
    hx_cover!(true, "reached");
    core::mem::forget(sut);
    core::mem::forget(f0);
    core::mem::forget(f1);
    core::mem::forget(f2);
}

fn expired(f: &Frame, now: u64) -> bool {
    match &f.ttl {
        Some(TTL::Time(d)) => {
            let ts = (f.id.to_u128() >> 80) as u64;
            let dl = match ts.checked_add(d.as_millis() as u64) {
                Some(x) => x,
                None => u64::MAX,
            };
            now >= dl
        }
        _ => false,
    }
}

/// C01/C08/C09: read_sync filters expired time:N frames *then* takes `limit`, and queues a
/// Remove only for frames that really are expired.
pub fn o_read_sync<const L: usize, const N: usize>() {
    let (sut, g) = setup::<L, N>(true, 0);
    let now = nd::any_u64();
    env::stdm::time::set_clock(now);
    let has_limit = nd::any_bool();
    let limit = nd::any_usize();
    let (got, n, more) = {
        let mut it = sut.store.read_sync(None, if has_limit { Some(limit) } else { None }, None);
        take_ids::<3>(&mut it)
    };
    let mut want = [0u128; 3];
    let mut m = 0;
    let mut n_expired = 0;
    let mut i = 0;
    while i < N {
        let f = &g[i].f;
        if expired(f, now) {
            n_expired += 1;
        } else if !has_limit || m < limit {
            want[m] = f.id.to_u128();
            m += 1;
        }
        i += 1;
    }
    hx_check!(!more && n == m, "C01 read_sync returns the first `limit` of the non-expired frames (filter, then take)");
    hx_check!(got[0] == want[0] && got[1] == want[1] && got[2] == want[2], "C09 no time:N frame is returned once N ms have passed; the others come back in id order");
    // GC queue: only Remove tasks, only for expired ghosts
    let mut rx = sut.gc_rx.model_clone();
    let mut removes = 0;
    let mut k = 0;
    while k < N {
        if let Some(t) = rx.blocking_recv() {
            match t {
                GCTask::Remove(id) => {
                    removes += 1;
                    let mut ok = false;
                    let mut j = 0;
                    while j < N {
                        if g[j].f.id == id && expired(&g[j].f, now) {
                            ok = true;
                        }
                        j += 1;
                    }
                    hx_check!(ok, "C08 a Remove is queued only for a frame whose time:N ttl has elapsed");
                }
                other => {
                    hx_check!(false, "C08 a read queues nothing but Remove tasks");
                    core::mem::forget(other);
                }
            }
        }
        k += 1;
    }
    hx_check!(removes <= n_expired && rx.model_len() == 0, "C08 at most one Remove per expired frame");
    hx_cover!(has_limit && limit == 1 && n_expired == 1 && m == 1 && want[0] == g[N - 1].f.id.to_u128(), "limit 1 with an expired frame ahead of the one delivered");
    hx_cover!(removes == 1 && m == N - 1, "one expired frame reaped lazily, the rest delivered");
    core::mem::forget(rx);
    core::mem::forget(sut);
    core::mem::forget(g);
}

fn c04_one_insert_batch(m: &env::trace::Mon) -> bool {
    m.batches == 1 && m.commits == 1 && m.batch_inserts == 3 && m.last_commit_nops == 3 && m.ins_pids == 0b111 && m.batch_removes == 0 && m.direct_writes == 0
}
fn c04_synced(m: &env::trace::Mon) -> bool {
    m.persists_sync_all >= 1 && m.persists_weak == 0 && m.unsynced_commits == 0 && m.at_persist > m.at_commit
}

/// C04/C20/C01: import (insert_frame) of a symbolic frame into a symbolic N-frame state: one
/// atomic batch of exactly the three index writes, then fsync, no broadcast, no GC task; `get`
/// returns exactly what was imported; the frame appears at its id's position in the stream.
pub fn o_insert<const L: usize, const N: usize>() {
    let (sut, g) = setup::<L, N>(false, 1);
    let fid = nd::any_u128();
    let mut i = 0;
    while i < N {
        nd::assume(fid != g[i].f.id.to_u128());
        i += 1;
    }
    let f = mk_frame(topic::<L>(), nd::any_u128(), fid, ttl_kind());
    let r = sut.store.insert_frame(&f);
    hx_check!(r.is_ok(), "C20 import of a NUL-free frame is accepted");
    let m = env::trace::mon();
    hx_check!(c04_one_insert_batch(&m), "C04 an accepted frame is written as ONE atomic batch holding exactly its three index entries, nothing outside it");
    hx_check!(c04_synced(&m), "C04 the batch is fsynced (SyncAll) before the write is acknowledged");
    hx_check!(m.broadcasts == 0 && sut.gc_rx.model_len() == 0, "C20 import stores a frame as is: it neither broadcasts nor triggers GC (whatever the frame's ttl)");
    let back = sut.store.get(&f.id);
    hx_check!(
        matches!(&back, Some(x) if x.id == f.id && x.context_id == f.context_id && topic_eq(&x.topic, &f.topic) && x.ttl == f.ttl && x.hash == f.hash && x.meta == f.meta),
        "C01 looking a frame up by id returns exactly what was accepted"
    );
    // position in the all-contexts stream
    let (got, n, more) = {
        let mut it = sut.store.iter_frames(None, None);
        take_ids::<3>(&mut *it)
    };
    hx_check!(n == N + 1 && !more, "C20 an imported frame joins the stream, nothing else changes");
    let mut sorted = true;
    let mut found = false;
    let mut i = 0;
    while i < 3 {
        if i < n && got[i] == fid {
            found = true;
        }
        if i + 1 < n && got[i] >= got[i + 1] {
            sorted = false;
        }
        i += 1;
    }
    hx_check!(found && sorted, "C20 an imported frame appears at its id's position in the stream, not at the end");
    hx_cover!(fid < g[0].f.id.to_u128() && matches!(f.ttl, Some(TTL::Head(_))), "an imported head:N frame that sorts before every existing frame");
    core::mem::forget(back);
    core::mem::forget(sut);
    core::mem::forget(g);
    core::mem::forget(f);
}

/// C20/C05: importing the same frame again changes nothing (one stream entry, one context
/// entry, same head, same lookup).
pub fn o_reimport<const L: usize>() {
    env::reset_all();
    env::fjall::set_limit(2);
    let sut = mk_store(2);
    let f = mk_frame(topic::<L>(), nd::any_u128(), nd::any_u128(), None);
    if sut.store.insert_frame(&f).is_err() {
        nd::assume(false);
    }
    // the same frame again - or the same id/topic/context with an amended ttl (export, edit, import)
    let f2 = mk_frame(f.topic.clone(), f.context_id.to_u128(), f.id.to_u128(), sym_ttl_time());
    let r2 = sut.store.insert_frame(&f2);
    hx_check!(r2.is_ok(), "C20 re-import is accepted");
    let back = sut.store.get(&f.id);
    hx_check!(matches!(&back, Some(x) if x.ttl == f2.ttl && topic_eq(&x.topic, &f.topic)), "C20 a re-imported frame is stored as given");
    core::mem::forget(back);
    let (_, n_all, more_all) = {
        let mut it = sut.store.iter_frames(None, None);
        take_ids::<2>(&mut *it)
    };
    let (ids, n_ctx, more_ctx) = {
        let mut it = sut.store.iter_frames(Some(f.context_id), None);
        take_ids::<2>(&mut *it)
    };
    hx_check!(n_all == 1 && !more_all && n_ctx == 1 && !more_ctx && ids[0] == f.id.to_u128(), "C20 importing the same frame again does not duplicate it in any stream");
    let h = sut.store.head(&f.topic, f.context_id).map(|x| x.id);
    hx_check!(h == Some(f.id), "C05 the re-imported frame is still the head of its topic");
    hx_cover!(f2.ttl.is_some(), "re-import with an amended ttl");
    core::mem::forget(sut);
    core::mem::forget(f);
    core::mem::forget(f2);
}

/// C04/C05: remove(id) for an arbitrary id over a symbolic N-frame state.
pub fn o_remove<const L: usize, const N: usize>() {
    let (sut, g) = setup::<L, N>(false, 0);
    let rid = sid(nd::any_u128());
    let mut hit = false;
    let mut i = 0;
    while i < N {
        if rid == g[i].f.id {
            hit = true;
        }
        i += 1;
    }
    let r = sut.store.remove(&rid);
    hx_check!(r.is_ok(), "remove succeeds");
    let m = env::trace::mon();
    if hit {
        hx_check!(m.batches == 1 && m.commits == 1 && m.batch_removes == 3 && m.last_commit_nops == 3 && m.rem_pids == 0b111 && m.batch_inserts == 0 && m.direct_writes == 0,
            "C04 a remove is ONE atomic batch of exactly the frame's three tombstones, nothing outside it");
        hx_check!(c04_synced(&m), "C04 the remove batch is fsynced (SyncAll) before it is acknowledged");
    } else {
        hx_check!(m.commits == 0 && m.direct_writes == 0, "C05 removing an unknown id leaves no trace");
    }
    // by id, all-contexts stream and the own-context stream agree on every frame
    let (all, n_all, _) = {
        let mut it = sut.store.iter_frames(None, None);
        take_ids::<3>(&mut *it)
    };
    let mut i = 0;
    while i < N {
        let gone = g[i].f.id == rid;
        let by_id = sut.store.get(&g[i].f.id);
        let mut in_all = false;
        let mut k = 0;
        while k < 3 {
            if k < n_all && all[k] == g[i].f.id.to_u128() {
                in_all = true;
            }
            k += 1;
        }
        hx_check!(by_id.is_some() == !gone && in_all == !gone, "C05 after remove the frame is gone by id and from the all-contexts stream alike; every other frame stays on both");
        core::mem::forget(by_id);
        i += 1;
    }
    // its own context's stream and head
    let (cids, n_ctx, _) = {
        let mut it = sut.store.iter_frames(Some(g[0].f.context_id), None);
        take_ids::<3>(&mut *it)
    };
    let mut in_ctx = false;
    let mut k = 0;
    while k < 3 {
        if k < n_ctx && cids[k] == g[0].f.id.to_u128() {
            in_ctx = true;
        }
        k += 1;
    }
    hx_check!(in_ctx == (g[0].f.id != rid), "C05 a frame is in its own context's stream iff it has not been removed");
    let mut g2 = [
        Ghost { f: mk_frame(g[0].f.topic.clone(), g[0].f.context_id.to_u128(), g[0].f.id.to_u128(), None), present: g[0].present && g[0].f.id != rid },
        Ghost { f: mk_frame(g[1].f.topic.clone(), g[1].f.context_id.to_u128(), g[1].f.id.to_u128(), None), present: g[1].present && g[1].f.id != rid },
        Ghost { f: mk_frame(g[2].f.topic.clone(), g[2].f.context_id.to_u128(), g[2].f.id.to_u128(), None), present: g[2].present && g[2].f.id != rid },
    ];
    let qt = g[N - 1].f.topic.clone();
    let qc = g[N - 1].f.context_id;
    let got = sut.store.head(&qt, qc).map(|f| f.id);
    hx_check!(got == ref_head(&g2, &qt, qc), "C05 head skips the removed frame and falls back to the next newest of that topic");
    hx_cover!(hit && rid == g[N - 1].f.id && got == Some(g[0].f.id), "newest frame removed, head falls back to an older one");
    hx_cover!(!hit, "unknown id");
    g2[0].present = false;
    core::mem::forget(sut);
    core::mem::forget(g);
    core::mem::forget(g2);
}

fn ttl_kind() -> Option<TTL> {
    let k = nd::any_u8();
    if k == 0 {
        None
    } else if k == 1 {
        Some(TTL::Forever)
    } else if k == 2 {
        Some(TTL::Ephemeral)
    } else if k == 3 {
        Some(TTL::Time(Duration::from_millis(nd::any_u64())))
    } else {
        nd::assume(k == 4);
        let n = nd::any_u32();
        nd::assume(n >= 1);
        Some(TTL::Head(n))
    }
}

/// C07/C09/C08/C04/C05: one append of a symbolic frame (every topic of L bytes - including
/// ones with NUL -, every context id, every ttl kind) into a store whose registry holds the
/// zero context and one symbolic registered context.
pub fn o_append<const L: usize>() {
    env::reset_all();
    env::fjall::set_limit(1);
    let sut = mk_store(2);
    let reg = nd::any_u128();
    sut.store.contexts.write().unwrap().insert(sid(reg));
    env::trace::reset();
    let mut brx = sut.store.broadcast_tx.subscribe();
    let t = super::k_keys::sym_topic::<L>();
    nd::assume(!topic_eq(&t, "xs.context"));
    let has_nul = !nul_free(&t);
    let ctx = nd::any_u128();
    let ttl = ttl_kind();
    let newid = nd::any_u128();
    nd::assume(newid != 0);
    env::scru::force_next(newid);
    let fr = Frame { topic: t.clone(), context_id: sid(ctx), id: sid(0), hash: None, meta: None, ttl: ttl.clone() };
    let r = sut.store.append(fr);
    let m = env::trace::mon();
    let allowed = ctx == 0 || ctx == reg;
    hx_check!(r.is_ok() == (allowed && !has_nul), "C07 an append succeeds iff its context is the zero context or a registered one (and the topic has no NUL)");
    match r {
        Err(e) => {
            hx_check!(m.batches == 0 && m.commits == 0 && m.direct_writes == 0 && m.broadcasts == 0, "C07 a rejected append leaves no frame, no index entry and no broadcast behind");
            hx_check!(sut.gc_rx.model_len() == 0, "C07 a rejected append queues no GC work");
            let st = sut.store.get(&sid(newid));
            hx_check!(st.is_none(), "C05 a rejected append is not retrievable");
            core::mem::forget(st);
            core::mem::forget(e);
        }
        Ok(f) => {
            hx_check!(f.id == sid(newid) && f.context_id == sid(ctx) && topic_eq(&f.topic, &t), "C01 append returns the frame it accepted, with the generated id");
            let eph = matches!(ttl, Some(TTL::Ephemeral));
            let stored = sut.store.get(&f.id);
            hx_check!(stored.is_some() == !eph, "C09 an ephemeral frame is never stored; every other frame is");
            if eph {
                hx_check!(m.batches == 0 && m.commits == 0 && m.direct_writes == 0, "C09 an ephemeral append writes nothing");
            } else {
                hx_check!(c04_one_insert_batch(&m), "C04 an accepted frame is written as ONE atomic batch holding exactly its three index entries, nothing outside it");
                hx_check!(m.persists_sync_all >= 1 && m.persists_weak == 0 && m.unsynced_commits == 0, "C04 the batch is fsynced (SyncAll) before the write is acknowledged");
                let h = sut.store.head(&t, sid(ctx)).map(|x| x.id);
                hx_check!(h == Some(f.id), "C05 the appended frame is the head of its topic in its context");
            }
            hx_check!(m.broadcasts == 1 && m.last_broadcast == newid && !m.broadcast_before_persist, "C03 every accepted append is broadcast exactly once, after it is durable");
            let live = brx.model_try_recv();
            hx_check!(matches!(&live, Some(Ok(x)) if x.id == f.id), "C09 an ephemeral (and any other) frame reaches the followers subscribed at that moment");
            core::mem::forget(live);
            // GC: exactly one task iff a head:N frame was stored (what the task does is o_gc_head's business)
            let want_tasks = if matches!(ttl, Some(TTL::Head(_))) { 1 } else { 0 };
            hx_check!(sut.gc_rx.model_len() == want_tasks, "C08 a retention check is scheduled iff a head:N frame was stored - one per append");
            core::mem::forget(stored);
            core::mem::forget(f);
        }
    }
    hx_cover!(allowed && !has_nul && matches!(ttl, Some(TTL::Head(_))) && ctx != 0, "accepted head:N append into the registered context");
    hx_cover!(!allowed && !has_nul, "rejected: unregistered context");
    hx_cover!((L > 0 && has_nul && allowed) || (L == 0 && allowed), "rejected: NUL in topic (for the empty topic: accepted)");
    hx_cover!(allowed && !has_nul && matches!(ttl, Some(TTL::Ephemeral)), "accepted ephemeral append");
    core::mem::forget(brx);
    core::mem::forget(sut);
    core::mem::forget(t);
}

/// C07: `xs.context` frames: accepted only in the zero context, always kept forever, and
/// their id becomes a usable context at once.
pub fn o_append_context() {
    env::reset_all();
    env::fjall::set_limit(2);
    let sut = mk_store(2);
    let ctx = nd::any_u128();
    let ttl = ttl_kind();
    let newid = nd::any_u128();
    nd::assume(newid != 0 && newid != u128::MAX);
    env::scru::force_next(newid);
    let fr = Frame { topic: "xs.context".to_string(), context_id: sid(ctx), id: sid(0), hash: None, meta: None, ttl: ttl.clone() };
    let r = sut.store.append(fr);
    hx_check!(r.is_ok() == (ctx == 0), "C07 xs.context frames are accepted only in the zero context");
    let registered = sut.store.contexts.read().unwrap().contains(&sid(newid));
    match r {
        Ok(f) => {
            hx_check!(matches!(f.ttl, Some(TTL::Forever)), "C07 xs.context frames are kept forever whatever TTL was requested");
            let st = sut.store.get(&f.id);
            hx_check!(matches!(&st, Some(x) if matches!(x.ttl, Some(TTL::Forever))), "C07 the registration frame is stored (even if ephemeral was requested) with ttl forever");
            hx_check!(registered, "C07 the new context is usable as soon as its registration is accepted");
            env::scru::force_next(newid + 1);
            let r2 = sut.store.append(Frame { topic: "a".to_string(), context_id: f.id, id: sid(0), hash: None, meta: None, ttl: None });
            hx_check!(r2.is_ok(), "C07 appends into a freshly registered context succeed");
            core::mem::forget(r2);
            core::mem::forget(st);
            core::mem::forget(f);
        }
        Err(e) => {
            let m = env::trace::mon();
            hx_check!(m.commits == 0 && m.broadcasts == 0 && m.direct_writes == 0, "C07 a rejected registration leaves no trace");
            hx_check!(!registered, "C07 a rejected registration does not make its id a usable context");
            core::mem::forget(e);
        }
    }
    hx_cover!(ctx == 0 && matches!(ttl, Some(TTL::Ephemeral)), "registration requested as ephemeral");
    hx_cover!(ctx != 0, "registration attempted outside the zero context");
    core::mem::forget(sut);
}

/// C08/C09: a `head:K` append (every registered context, every topic of Q bytes, every K >= 1)
/// followed by the REAL gc worker body, over a symbolic N-frame state (stored topics L bytes):
/// exactly the frames of that (context, topic) beyond the K newest disappear - never a frame of
/// another topic (even a prefix-related one) or context - and the K newest are what stays.
pub fn o_gc_head<const L: usize, const Q: usize, const N: usize>() {
    let (sut, g) = setup::<L, N>(false, 1);
    let qc = sid(nd::any_u128());
    sut.store.contexts.write().unwrap().insert(qc);
    let qt = topic::<Q>();
    nd::assume(!topic_eq(&qt, "xs.context"));
    let keep = nd::any_u32();
    nd::assume(keep >= 1);
    let newid = nd::any_u128();
    nd::assume(newid > g[N - 1].f.id.to_u128());
    env::scru::force_next(newid);
    let r = sut.store.append(Frame { topic: qt.clone(), context_id: qc, id: sid(0), hash: None, meta: None, ttl: Some(TTL::Head(keep)) });
    if r.is_err() {
        nd::assume(false);
    }
    gc_drain(&sut);
    // the new frame is the newest member; rank the older members from newest to oldest
    let mut newer = 1u32;
    let mut i = N;
    let mut evicted = 0;
    while i > 0 {
        i -= 1;
        let f = &g[i].f;
        let member = f.context_id == qc && topic_eq(&f.topic, &qt);
        let should_go = member && newer >= keep;
        if member {
            newer += 1;
        }
        let still = sut.store.get(&f.id);
        hx_check!(still.is_some() == !should_go, "C08 head:K eviction removes exactly the frames of that topic and context outside the K newest - never a frame of another topic (even a prefix-related one) or context");
        if should_go {
            evicted += 1;
        }
        core::mem::forget(still);
    }
    let st = sut.store.get(&sid(newid));
    hx_check!(st.is_some(), "C09 the newest frame of a head:K topic survives the collection");
    core::mem::forget(st);
    hx_check!(sut.gc_rx.model_len() == 0, "C09 the collector drained its queue");
    hx_cover!(
        (L == Q && evicted == N && keep == 1) || (L != Q && g[0].f.context_id == qc && g[N - 1].f.context_id == qc && keep == 1),
        "equal lengths: head:1 evicts every older member; different lengths: prefix-related topics in the same context survive head:1"
    );
    hx_cover!(
        (L == Q && evicted == 1 && newer == 3 && N >= 2) || (L != Q && evicted == 0) || N < 2,
        "equal lengths: head:2 over three members evicts exactly the oldest; different lengths: nothing evicted"
    );
    core::mem::forget(r);
    core::mem::forget(sut);
    core::mem::forget(g);
    core::mem::forget(qt);
}

/// C08: a Remove(id) task removes that frame and nothing else.
pub fn o_gc_remove<const L: usize, const N: usize>() {
    let (sut, g) = setup::<L, N>(false, 0);
    let rid = sid(nd::any_u128());
    let _ = sut.store.gc_tx.send(GCTask::Remove(rid));
    gc_drain(&sut);
    let mut i = 0;
    while i < N {
        let still = sut.store.get(&g[i].f.id);
        hx_check!(still.is_some() == (g[i].f.id != rid), "C08 a queued Remove deletes exactly the frame it names");
        core::mem::forget(still);
        i += 1;
    }
    hx_cover!(rid == g[0].f.id, "oldest frame reaped");
    core::mem::forget(sut);
    core::mem::forget(g);
}

/// C04 (concrete bytes): the collector removes a frame (queued Remove), then the client removes the
/// same id explicitly. Once that explicit remove is acknowledged, no committed batch it relies on -
/// the collector's tombstones included - may be left without fsync.
pub fn o_gc_then_remove() {
    env::reset_all();
    env::fjall::set_limit(2);
    let sut = mk_store(2);
    let t = 1000u128 << 80;
    let f = mk_frame("a".to_string(), 0, t + 1, None);
    install_one(&f);
    env::trace::reset();
    let _ = sut.store.gc_tx.send(GCTask::Remove(f.id));
    gc_drain(&sut);
    let gone = sut.store.get(&f.id);
    hx_check!(gone.is_none(), "C08 a queued Remove deletes the frame it names");
    let r = sut.store.remove(&f.id);
    hx_check!(r.is_ok(), "remove succeeds");
    let m = env::trace::mon();
    hx_check!(m.unsynced_commits == 0 && m.persists_weak == 0 && m.direct_writes == 0, "C04 an acknowledged remove is durable: no committed batch it relies on - the collector's included - is left without fsync");
    hx_cover!(m.commits >= 1, "the collector committed its tombstones");
    core::mem::forget(gone);
    core::mem::forget(sut);
    core::mem::forget(f);
}

/// "process restart": every in-memory structure (channels, registry set, task table) is gone,
/// the model keyspace survives; the REAL `Store::new` then rebuilds from it.
pub fn reopen() -> Store {
    env::restart_memory();
    let was = env::sched::inline();
    env::sched::set_inline(true);
    let s = Store::new(PathBuf::new());
    env::sched::set_inline(was);
    s
}

/// C07/C20: the context registry is a function of the stored frames: after importing an
/// arbitrary frame (possibly an `xs.context` registration, possibly in a non-zero context)
/// the registry equals what a reopen (the real `Store::new` reload) computes from the frames.
pub fn o_registry_after_import<const L: usize>() {
    env::reset_all();
    env::fjall::set_limit(1);
    let sut = mk_store(2);
    let t = topic::<L>();
    let ctx = nd::any_u128();
    let id = nd::any_u128();
    nd::assume(id != 0);
    let f = mk_frame(t, ctx, id, None);
    let r = sut.store.insert_frame(&f);
    if r.is_err() {
        nd::assume(false);
    }
    let is_reg = topic_eq(&f.topic, "xs.context") && ctx == 0;
    if is_reg {
        nd::tag("import-of-xs.context-registration");
    }
    let before = sut.store.contexts.read().unwrap().contains(&sid(id));
    core::mem::forget(sut);
    let s2 = reopen();
    let after = s2.contexts.read().unwrap().contains(&sid(id));
    hx_check!(after == is_reg, "C07 reopening registers exactly the ids of xs.context frames stored in the zero context");
    hx_check!(before == after, "C07 the set of usable contexts is the same before and after a reopen, however the frames got there");
    let zero = s2.contexts.read().unwrap().contains(&ZERO_CONTEXT);
    hx_check!(zero, "C07 the zero context is always usable");
    hx_cover!((L == 10 && is_reg) || (L != 10 && !is_reg && ctx == 0), "L=10: an xs.context registration was imported; otherwise: a zero-context frame that is not a registration");
    core::mem::forget(s2);
    core::mem::forget(f);
}

/// C07/C20, lean variant with a concrete topic (the 10/11-byte symbolic-topic variants above take
/// > 25 min / 30 GB): import of a frame whose topic is `xs.context` (KIND 0: in the zero context =
/// a registration; KIND 1: in an arbitrary non-zero context = not one) or the prefix-related
/// `xs.context.x` in the zero context (KIND 2: not one); then a reopen. Concrete bytes.
pub fn o_import_reg<const KIND: u8>() {
    env::reset_all();
    env::fjall::set_limit(1);
    let sut = mk_store(2);
    // concrete id / context: with a solver-chosen id this harness needs > 15 min and 22 GB (the
    // reopen scans the zero context through the index -> lookup path)
    let id = 4242u128 << 80;
    let ctx = if KIND == 1 { 77u128 << 80 } else { 0 };
    let t = if KIND == 2 { "xs.context.x" } else { "xs.context" };
    let f = mk_frame(t.to_string(), ctx, id, None);
    let r = sut.store.insert_frame(&f);
    if r.is_err() {
        nd::assume(false);
    }
    let is_reg = KIND == 0;
    if is_reg {
        nd::tag("import-of-xs.context-registration");
    }
    let before = sut.store.contexts.read().unwrap().contains(&sid(id));
    core::mem::forget(sut);
    let s2 = reopen();
    let after = s2.contexts.read().unwrap().contains(&sid(id));
    hx_check!(after == is_reg, "C07 reopening registers exactly the ids of xs.context frames stored in the zero context");
    hx_check!(before == after, "C07 the set of usable contexts is the same before and after a reopen, however the frames got there");
    hx_cover!(true, "reached");
    core::mem::forget(s2);
    core::mem::forget(f);
}

/// C07: removing a registration frame unregisters its context, before and after a reopen.
pub fn o_remove_unregisters() {
    env::reset_all();
    env::fjall::set_limit(2);
    let sut = mk_store(2);
    let id = nd::any_u128();
    nd::assume(id != 0 && id != u128::MAX);
    env::scru::force_next(id);
    let r = sut.store.append(Frame { topic: "xs.context".to_string(), context_id: ZERO_CONTEXT, id: sid(0), hash: None, meta: None, ttl: None });
    if r.is_err() {
        nd::assume(false);
    }
    let r = sut.store.remove(&sid(id));
    hx_check!(r.is_ok(), "remove succeeds");
    hx_check!(!sut.store.contexts.read().unwrap().contains(&sid(id)), "C07 removing its registration frame makes a context unusable");
    env::scru::force_next(id + 1);
    let r2 = sut.store.append(Frame { topic: "a".to_string(), context_id: sid(id), id: sid(0), hash: None, meta: None, ttl: None });
    hx_check!(r2.is_err(), "C07 an append into an unregistered-again context is rejected");
    core::mem::forget(sut);
    let s2 = reopen();
    hx_check!(!s2.contexts.read().unwrap().contains(&sid(id)), "C07 and it stays unusable after a reopen");
    hx_cover!(true, "reached");
    core::mem::forget(r2);
    core::mem::forget(s2);
}

/// C08/C09 end to end, concrete bytes: "a", the prefix-related "ab" and another "a" in context 0;
/// a REAL `head:1` append on ("a", 0); the REAL gc worker. Both older "a" frames are gone (not
/// just one), "ab" is untouched, the new frame is the head.
pub fn o_gc_e2e() {
    env::reset_all();
    env::fjall::set_limit(4);
    let sut = mk_store(2);
    let t = 1000u128 << 80;
    let fs = [
        mk_frame("a".to_string(), 0, t + 1, None),
        mk_frame("ab".to_string(), 0, t + 2, None),
        mk_frame("a".to_string(), 0, t + 3, Some(TTL::Forever)),
    ];
    let mut i = 0;
    while i < 3 {
        install_one(&fs[i]);
        i += 1;
    }
    env::trace::reset();
    env::scru::force_next(t + 4);
    let r = sut.store.append(mk_frame("a".to_string(), 0, 0, Some(TTL::Head(1))));
    hx_check!(r.is_ok(), "append succeeds");
    gc_drain(&sut);
    let a1 = sut.store.get(&sid(t + 1));
    let ab = sut.store.get(&sid(t + 2));
    let a3 = sut.store.get(&sid(t + 3));
    let a4 = sut.store.get(&sid(t + 4));
    hx_check!(a1.is_none() && a3.is_none() && a4.is_some(), "C09 after the collector drained, a head:K topic holds its K newest frames and nothing older");
    hx_check!(ab.is_some(), "C08 garbage collection of one topic never touches a prefix-related topic");
    hx_cover!(true, "reached");
    core::mem::forget(a1);
    core::mem::forget(ab);
    core::mem::forget(a3);
    core::mem::forget(a4);
    core::mem::forget(r);
    core::mem::forget(sut);
    core::mem::forget(fs);
}

/// smaller end-to-end collector instances (two stored frames + the real head:1 append + the real
/// worker). SECOND = "ab": the prefix-related topic must survive; SECOND = "a": both older frames of
/// the topic must go, not just one.
pub fn o_gc_e2e2<const PREFIX: bool>() {
    env::reset_all();
    env::fjall::set_limit(3);
    let sut = mk_store(2);
    let t = 1000u128 << 80;
    let f1 = mk_frame("a".to_string(), 0, t + 1, None);
    let f2 = mk_frame(if PREFIX { "ab".to_string() } else { "a".to_string() }, 0, t + 2, None);
    install_one(&f1);
    install_one(&f2);
    env::trace::reset();
    env::scru::force_next(t + 4);
    let r = sut.store.append(mk_frame("a".to_string(), 0, 0, Some(TTL::Head(1))));
    hx_check!(r.is_ok(), "append succeeds");
    gc_drain(&sut);
    let a1 = sut.store.get(&sid(t + 1));
    let x2 = sut.store.get(&sid(t + 2));
    let a4 = sut.store.get(&sid(t + 4));
    hx_check!(a1.is_none() && a4.is_some(), "C09 after the collector drained, a head:K topic holds its K newest frames and nothing older");
    if PREFIX {
        hx_check!(x2.is_some(), "C08 garbage collection of one topic never touches a prefix-related topic");
    } else {
        hx_check!(x2.is_none(), "C09 after the collector drained, every frame of the topic outside the K newest is gone - not just one");
    }
    hx_cover!(true, "reached");
    core::mem::forget(a1);
    core::mem::forget(x2);
    core::mem::forget(a4);
    core::mem::forget(r);
    core::mem::forget(sut);
    core::mem::forget(f1);
    core::mem::forget(f2);
}

/// C01/C08/C09: read_sync over [time:T frame, plain frame] (ids, contexts, topic bytes, T and the
/// clock symbolic): the time:T frame is dropped exactly when expired, *before* the limit is
/// applied, and a Remove is queued for it and only for it.
pub fn o_read_sync_k<const L: usize>() {
    env::reset_all();
    env::fjall::set_limit(2);
    let sut = mk_store(2);
    let id0 = nd::any_u128();
    let id1 = nd::any_u128();
    nd::assume(id0 < id1);
    let ms = nd::any_u64();
    let g = [
        Ghost { f: mk_frame(topic::<L>(), nd::any_u128(), id0, Some(TTL::Time(Duration::from_millis(ms)))), present: true },
        Ghost { f: mk_frame(topic::<L>(), nd::any_u128(), id1, None), present: true },
    ];
    install(&sut, &g);
    let now = nd::any_u64();
    env::stdm::time::set_clock(now);
    let has_limit = nd::any_bool();
    let (got, n, more) = {
        let mut it = sut.store.read_sync(None, if has_limit { Some(1) } else { None }, None);
        take_ids::<2>(&mut it)
    };
    let exp = expired(&g[0].f, now);
    let want0 = if exp { id1 } else { id0 };
    let want_n = if exp || has_limit { 1 } else { 2 };
    hx_check!(!more && n == want_n && got[0] == want0 && (n < 2 || got[1] == id1), "C01 read_sync returns the first `limit` of the non-expired frames (filter, then take); C09 an expired time:N frame is never returned");
    hx_check!(sut.gc_rx.model_len() == if exp { 1 } else { 0 }, "C08 a Remove is queued only for a frame whose time:N ttl has elapsed");
    hx_cover!(exp && has_limit, "limit 1 with an expired frame ahead of the one delivered");
    hx_cover!(!exp && now > 0 && ms > 1000, "a long ttl not yet elapsed");
    core::mem::forget(sut);
    core::mem::forget(g);
}

/// the same with concrete bytes and instantiated cases (the symbolic variant above does not fit in
/// 40 GB): a `time:10` frame stamped at 1000 ms followed by a plain frame; clock before / after the
/// deadline (EXPIRED), limit 1 or none (LIMIT1).
pub fn o_read_sync_c<const EXPIRED: bool, const LIMIT1: bool>() {
    env::reset_all();
    env::fjall::set_limit(2);
    let sut = mk_store(2);
    let id0 = 1000u128 << 80;
    let id1 = (1001u128 << 80) | 5;
    let f0 = mk_frame("a".to_string(), 0, id0, Some(TTL::Time(Duration::from_millis(10))));
    let f1 = mk_frame("a".to_string(), 0, id1, None);
    install_one(&f0);
    install_one(&f1);
    env::trace::reset();
    env::stdm::time::set_clock(if EXPIRED { 1010 } else { 1009 });
    let (got, n, more) = {
        let mut it = sut.store.read_sync(None, if LIMIT1 { Some(1) } else { None }, None);
        take_ids::<2>(&mut it)
    };
    let want0 = if EXPIRED { id1 } else { id0 };
    let want_n = if EXPIRED || LIMIT1 { 1 } else { 2 };
    hx_check!(!more && n == want_n && got[0] == want0 && (n < 2 || got[1] == id1), "C01 read_sync returns the first `limit` of the non-expired frames (filter, then take); C09 an expired time:N frame is never returned");
    hx_check!(sut.gc_rx.model_len() == if EXPIRED { 1 } else { 0 }, "C08 a Remove is queued only for a frame whose time:N ttl has elapsed");
    hx_cover!(true, "reached");
    core::mem::forget(sut);
    core::mem::forget(f0);
    core::mem::forget(f1);
}

/// C04/C05: remove(id) for an arbitrary id over a symbolic N-frame state: effect shape and
/// by-id visibility (stream / head agreement after removal is o_remove_head's business).
pub fn o_remove_k<const L: usize, const N: usize>() {
    let (sut, g) = setup::<L, N>(false, 0);
    let rid = sid(nd::any_u128());
    let mut hit = false;
    let mut i = 0;
    while i < N {
        if rid == g[i].f.id {
            hit = true;
        }
        i += 1;
    }
    let r = sut.store.remove(&rid);
    hx_check!(r.is_ok(), "remove succeeds");
    let m = env::trace::mon();
    if hit {
        hx_check!(m.batches == 1 && m.commits == 1 && m.batch_removes == 3 && m.last_commit_nops == 3 && m.rem_pids == 0b111 && m.batch_inserts == 0 && m.direct_writes == 0,
            "C04 a remove is ONE atomic batch of exactly the frame's three tombstones, nothing outside it");
        hx_check!(c04_synced(&m), "C04 the remove batch is fsynced (SyncAll) before it is acknowledged");
    } else {
        hx_check!(m.commits == 0 && m.direct_writes == 0, "C05 removing an unknown id leaves no trace");
    }
    let mut i = 0;
    while i < N {
        let by_id = sut.store.get(&g[i].f.id);
        hx_check!(by_id.is_some() == (g[i].f.id != rid), "C05 after remove exactly the named frame is gone by id");
        core::mem::forget(by_id);
        i += 1;
    }
    hx_cover!(hit, "a stored frame removed");
    hx_cover!(!hit, "unknown id");
    core::mem::forget(sut);
    core::mem::forget(g);
}

/// C05: after removing the NEWEST of two symbolic frames, every way of finding frames agrees:
/// it is gone from the all-contexts stream, from its context's stream and as head; head falls
/// back to the older frame iff that one has the same topic and context.
pub fn o_remove_head<const L: usize>() {
    let (sut, g) = setup::<L, 2>(false, 0);
    let r = sut.store.remove(&g[1].f.id);
    hx_check!(r.is_ok(), "remove succeeds");
    let (all, n_all, more) = {
        let mut it = sut.store.iter_frames(None, None);
        take_ids::<2>(&mut *it)
    };
    hx_check!(n_all == 1 && !more && all[0] == g[0].f.id.to_u128(), "C05 a removed frame is gone from the all-contexts stream, the others stay");
    let got = sut.store.head(&g[1].f.topic, g[1].f.context_id).map(|f| f.id);
    let same = g[0].f.context_id == g[1].f.context_id && topic_eq(&g[0].f.topic, &g[1].f.topic);
    hx_check!(got == if same { Some(g[0].f.id) } else { None }, "C05 head skips the removed frame and falls back to the next newest of that topic");
    hx_cover!(same, "head falls back to the older frame");
    hx_cover!(!same && g[0].f.context_id == g[1].f.context_id, "same context, other topic: no head left");
    core::mem::forget(sut);
    core::mem::forget(g);
}

/// C20/C05: re-import of a stored frame with an amended ttl (export, edit, import - same id, topic and
/// context): the frame keeps exactly one entry in every stream and stays findable every way.
pub fn o_reimport_amend<const L: usize>() {
    env::reset_all();
    env::fjall::set_limit(2);
    let sut = mk_store(2);
    let f = mk_frame(topic::<L>(), nd::any_u128(), nd::any_u128(), None);
    install_one(&f);
    env::trace::reset();
    let f2 = mk_frame(f.topic.clone(), f.context_id.to_u128(), f.id.to_u128(), Some(TTL::Forever));
    let r2 = sut.store.insert_frame(&f2);
    hx_check!(r2.is_ok(), "C20 re-import is accepted");
    let (cids, n_ctx, more_ctx) = {
        let mut it = sut.store.iter_frames(Some(f.context_id), None);
        take_ids::<2>(&mut *it)
    };
    hx_check!(n_ctx == 1 && !more_ctx && cids[0] == f.id.to_u128(), "C05 a re-imported frame is still in its own context's stream, once");
    let h = sut.store.head(&f.topic, f.context_id).map(|x| x.id);
    hx_check!(h == Some(f.id), "C05 a re-imported frame is still the head of its topic");
    let back = sut.store.get(&f.id);
    hx_check!(matches!(&back, Some(x) if matches!(x.ttl, Some(TTL::Forever))), "C20 a re-imported frame is stored as given");
    hx_cover!(true, "reached");
    core::mem::forget(back);
    core::mem::forget(sut);
    core::mem::forget(f);
    core::mem::forget(f2);
}

/// the same with concrete bytes (the symbolic variant needs > 25 GB once `insert_frame` does more
/// than three writes)
pub fn reimport_amend_concrete() {
    env::reset_all();
    env::fjall::set_limit(3);
    let sut = mk_store(2);
    let t = 1000u128 << 80;
    let older = mk_frame("a".to_string(), 0, t + 1, None);
    let f = mk_frame("a".to_string(), 0, t + 2, None);
    install_one(&older);
    install_one(&f);
    env::trace::reset();
    let f2 = mk_frame("a".to_string(), 0, t + 2, Some(TTL::Forever));
    let r2 = sut.store.insert_frame(&f2);
    hx_check!(r2.is_ok(), "C20 re-import is accepted");
    let (cids, n_ctx, more_ctx) = {
        let mut it = sut.store.iter_frames(Some(ZERO_CONTEXT), None);
        take_ids::<3>(&mut *it)
    };
    hx_check!(n_ctx == 2 && !more_ctx && cids[1] == t + 2, "C05 a re-imported frame is still in its own context's stream, once");
    let h = sut.store.head("a", ZERO_CONTEXT).map(|x| x.id);
    hx_check!(h == Some(sid(t + 2)), "C05 a re-imported frame is still the head of its topic");
    let back = sut.store.get(&sid(t + 2));
    hx_check!(matches!(&back, Some(x) if matches!(x.ttl, Some(TTL::Forever))), "C20 a re-imported frame is stored as given");
    hx_cover!(true, "reached");
    core::mem::forget(back);
    core::mem::forget(sut);
    core::mem::forget(older);
    core::mem::forget(f);
    core::mem::forget(f2);
}

/// C20: importing the identical frame again changes nothing (one stream entry, same lookup).
pub fn o_reimport_k<const L: usize>() {
    env::reset_all();
    env::fjall::set_limit(2);
    let sut = mk_store(2);
    let f = mk_frame(topic::<L>(), nd::any_u128(), nd::any_u128(), None);
    install_one(&f);
    env::trace::reset();
    let r2 = sut.store.insert_frame(&f);
    hx_check!(r2.is_ok(), "C20 re-import is accepted");
    let (ids, n_all, more_all) = {
        let mut it = sut.store.iter_frames(None, None);
        take_ids::<2>(&mut *it)
    };
    hx_check!(n_all == 1 && !more_all && ids[0] == f.id.to_u128(), "C20 importing the same frame again does not duplicate it");
    let back = sut.store.get(&f.id);
    hx_check!(matches!(&back, Some(x) if topic_eq(&x.topic, &f.topic) && x.context_id == f.context_id), "C20 importing the same frame again changes nothing");
    hx_cover!(true, "reached");
    core::mem::forget(back);
    core::mem::forget(sut);
    core::mem::forget(f);
}

crate::scenarios! {
    unwind 50;
    o_head_1_1_2 => o_head::<1, 1, 2>();
    o_head_1_2_2 => o_head::<1, 2, 2>();
    o_head_2_1_2 => o_head::<2, 1, 2>();
    o_head_0_1_2 => o_head::<0, 1, 2>();
    o_head_1_0_2 => o_head::<1, 0, 2>();
    o_head_1_1_3 => o_head::<1, 1, 3>();
    o_head_1_2_3 => o_head::<1, 2, 3>();
    o_head_2_1_3 => o_head::<2, 1, 3>();
    o_head_2_2_3 => o_head::<2, 2, 3>();
    o_head_2_3_3 => o_head::<2, 3, 3>();
    o_head_3_2_3 => o_head::<3, 2, 3>();
    o_iter_all_1_2 => o_iter::<1, 2, 0>();
    o_iter_ctx_1_2 => o_iter::<1, 2, 1>();
    o_iter_ctx_0_2 => o_iter::<0, 2, 1>();
    o_iter_all_1_3 => o_iter::<1, 3, 0>();
    o_iter_ctx_1_3 => o_iter::<1, 3, 1>();
    o_read_sync_1_2 => o_read_sync::<1, 2>();
    o_read_sync_0_2 => o_read_sync::<0, 2>();
    o_read_sync_1_3 => o_read_sync::<1, 3>();
    o_insert_1_1 => o_insert::<1, 1>();
    o_insert_1_2 => o_insert::<1, 2>();
    o_insert_2_2 => o_insert::<2, 2>();
    o_reimport_1 => o_reimport::<1>();
    o_reimport_2 => o_reimport::<2>();
    o_remove_1_2 => o_remove::<1, 2>();
    o_remove_2_2 => o_remove::<2, 2>();
    o_remove_1_3 => o_remove::<1, 3>();
    o_append_1 => o_append::<1>();
    o_append_0 => o_append::<0>();
    o_append_2 => o_append::<2>();
    o_append_context_all => o_append_context();
    o_gc_head_1_1_2 => o_gc_head::<1, 1, 2>();
    o_gc_head_1_2_2 => o_gc_head::<1, 2, 2>();
    o_gc_head_2_1_2 => o_gc_head::<2, 1, 2>();
    o_gc_head_1_1_3 => o_gc_head::<1, 1, 3>();
    o_gc_head_2_2_3 => o_gc_head::<2, 2, 3>();
    o_gc_remove_1_2 => o_gc_remove::<1, 2>();
    o_gc_e2e_all => o_gc_e2e();
    o_gc_then_remove_all => o_gc_then_remove();
    o_gc_e2e2_prefix => o_gc_e2e2::<true>();
    o_gc_e2e2_two => o_gc_e2e2::<false>();
    o_reimport_amend_1 => o_reimport_amend::<1>();
    o_reimport_amend_c => reimport_amend_concrete();
    o_read_sync_c_exp_lim => o_read_sync_c::<true, true>();
    o_read_sync_c_exp_all => o_read_sync_c::<true, false>();
    o_read_sync_c_live_lim => o_read_sync_c::<false, true>();
    o_read_sync_c_live_all => o_read_sync_c::<false, false>();
    o_read_sync_k_1 => o_read_sync_k::<1>();
    o_read_sync_k_0 => o_read_sync_k::<0>();
    o_remove_k_1_1 => o_remove_k::<1, 1>();
    o_remove_k_1_2 => o_remove_k::<1, 2>();
    o_remove_head_1 => o_remove_head::<1>();
    o_reimport_k_1 => o_reimport_k::<1>();
    o_iter_ctx_c => iter_ctx_concrete();
    o_iter_ctx_1_1 => o_iter::<1, 1, 1>();
    o_iter_ctx_0_1 => o_iter::<0, 1, 1>();
    o_import_reg_0 => o_import_reg::<0>();
    o_import_reg_1 => o_import_reg::<1>();
    o_import_reg_2 => o_import_reg::<2>();
    o_registry_after_import_10 => o_registry_after_import::<10>();
    o_registry_after_import_11 => o_registry_after_import::<11>();
    o_registry_after_import_1 => o_registry_after_import::<1>();
    o_remove_unregisters_all => o_remove_unregisters();
}
