use super::super::*;
use crate::env;

/// A `Store` over the model environment, built by struct literal (skips `Store::new`'s
/// I/O set-up; `Store::new` itself is exercised by the reopen harnesses).
pub struct Sut {
    pub store: Store,
    pub gc_rx: env::tokio::sync::mpsc::UnboundedReceiver<GCTask>,
}

pub fn mk_store(bcap: usize) -> Sut {
    let ks = env::fjall::Keyspace;
    let (btx, _brx) = env::tokio::sync::broadcast::channel(bcap);
    let (gc_tx, gc_rx) = env::tokio::sync::mpsc::unbounded_channel();
    let mut contexts = HashSet::new();
    contexts.insert(ZERO_CONTEXT);
    let store = Store {
        path: PathBuf::new(),
        keyspace: ks.clone(),
        frame_partition: env::fjall::PartitionHandle { pid: env::fjall::P_STREAM },
        idx_topic: env::fjall::PartitionHandle { pid: env::fjall::P_TOPIC },
        idx_context: env::fjall::PartitionHandle { pid: env::fjall::P_CTX },
        contexts: Arc::new(RwLock::new(contexts)),
        broadcast_tx: btx,
        gc_tx,
    };
    // the initial receiver handle is dropped, like in Store::new
    Sut { store, gc_rx }
}

/// run the REAL gc worker loop over everything queued so far
pub fn gc_drain(sut: &Sut) {
    spawn_gc_worker(sut.gc_rx.model_clone(), sut.store.clone());
    let i = env::sched::ntasks() - 1;
    env::sched::run_thread(i);
}

pub fn smoke() -> usize {
    env::reset_all();
    let sut = mk_store(4);
    let s = &sut.store;
    let f1 = s.append(Frame::builder("a", ZERO_CONTEXT).build()).unwrap();
    let f2 = s.append(Frame::builder("ab", ZERO_CONTEXT).build()).unwrap();
    assert!(f1.id < f2.id);
    assert!(s.head("a", ZERO_CONTEXT).unwrap().id == f1.id);
    assert!(s.head("ab", ZERO_CONTEXT).unwrap().id == f2.id);
    let v: Vec<Frame> = s.read_sync(None, None, None).collect();
    assert!(v.len() == 2);
    s.remove(&f1.id).unwrap();
    assert!(s.head("a", ZERO_CONTEXT).is_none());
    let v: Vec<Frame> = s.read_sync(None, None, Some(ZERO_CONTEXT)).collect();
    v.len()
}
