use super::super::*;
use crate::env;

/// A `Store` over the model environment, built by struct literal (skips `Store::new`'s
/// I/O set-up; `Store::new` itself is exercised by the reopen harnesses).
pub struct Sut {
    pub store: Store,
    pub gc_rx: env::tokio::sync::mpsc::UnboundedReceiver<GCTask>,
}

/// The store is built by the REAL `Store::new` over the model keyspace (so the harnesses do not
/// depend on `Store`'s field list); the gc worker it spawns runs inline over the empty queue and
/// returns; the harness attaches its own handle to the (singleton) gc queue.
/// `_bcap` is kept for call-site compatibility: the broadcast capacity is what Store::new asks
/// for (1024), capped by the model's ring (env::tokio broadcast BCAP).
pub fn mk_store(_bcap: usize) -> Sut {
    let was = env::sched::inline();
    env::sched::set_inline(true);
    let store = Store::new(PathBuf::new());
    env::sched::set_inline(was);
    let gc_rx = env::tokio::sync::mpsc::UnboundedReceiver::<GCTask>::model_attach(0);
    gc_rx.model_reopen();
    env::trace::reset();
    Sut { store, gc_rx }
}

/// run the REAL gc worker loop over everything queued so far (inline: the worker closure runs
/// on this stack, nothing is boxed - see env::sched INLINE)
pub fn gc_drain(sut: &Sut) {
    let was = env::sched::inline();
    env::sched::set_inline(true);
    spawn_gc_worker(sut.gc_rx.model_clone(), sut.store.clone());
    env::sched::set_inline(was);
    sut.gc_rx.model_reopen();
}

pub fn smoke() -> usize {
    env::reset_all();
    let sut = mk_store(4);
    let s = &sut.store;
    let f1 = s.append(Frame::builder("a", ZERO_CONTEXT).build()).unwrap();
    let f2 = s.append(Frame::builder("ab", ZERO_CONTEXT).build()).unwrap();
    assert!(f1.id < f2.id);
    assert!(s.head("a", ZERO_CONTEXT).unwrap().id == f1.id);
    assert!(s.head("ab", ZERO_CONTEXT).unwrap().id == f2.id);
    let v: Vec<Frame> = s.read_sync(None, None, None).collect();
    assert!(v.len() == 2);
    s.remove(&f1.id).unwrap();
    assert!(s.head("a", ZERO_CONTEXT).is_none());
    let v: Vec<Frame> = s.read_sync(None, None, Some(ZERO_CONTEXT)).collect();
    v.len()
}
