//! K harnesses: key-layout kernels (C01 order, C05 prefix exactness / NUL rejection,
//! C06 context range).
use super::super::*;
use crate::env::nd;
use crate::{hx_check, hx_cover};

pub use crate::env::utf8_ok;
/// every well-formed UTF-8 string of exactly L bytes (multi-byte included)
pub fn sym_topic<const L: usize>() -> String {
    let mut v = Vec::with_capacity(L);
    let mut i = 0;
    while i < L {
        v.push(nd::any_u8());
        i += 1;
    }
    nd::assume(utf8_ok(&v));
    // SAFETY: well-formedness was just assumed with an exact validator
    unsafe { String::from_utf8_unchecked(v) }
}
fn nul_free(s: &str) -> bool {
    let b = s.as_bytes();
    let mut i = 0;
    while i < b.len() {
        if b[i] == 0 {
            return false;
        }
        i += 1;
    }
    true
}
fn frame(topic: String, ctx: u128, id: u128) -> Frame {
    Frame {
        topic,
        context_id: Scru128Id::from_u128(ctx),
        id: Scru128Id::from_u128(id),
        hash: None,
        meta: None,
        ttl: None,
    }
}

/// C05: key(ctx1,t1,id) starts with prefix(ctx2,t2)  <=>  ctx1==ctx2 && t1==t2 ;
/// the id is recovered from the key; key length is 16+|t|+1+16.
pub fn k_prefix_exact<const L1: usize, const L2: usize>() {
    let c1 = nd::any_u128();
    let c2 = nd::any_u128();
    let id = nd::any_u128();
    let t1 = sym_topic::<L1>();
    let t2 = sym_topic::<L2>();
    nd::assume(nul_free(&t1));
    nd::assume(nul_free(&t2));
    let f = frame(t1.clone(), c1, id);
    let key = idx_topic_key_from_frame(&f);
    hx_check!(key.is_ok(), "C05 NUL-free topic must be accepted by idx_topic_key_from_frame");
    let key = key.unwrap();
    let prefix = idx_topic_key_prefix(Scru128Id::from_u128(c2), &t2);
    let same = c1 == c2 && t1.as_bytes() == t2.as_bytes();
    let sw = key.starts_with(&prefix);
    hx_check!(sw == same, "C05 idx_topic key matches a prefix iff context and topic are equal");
    hx_check!(key.len() == 16 + L1 + 1 + 16, "C05 idx_topic key length");
    hx_check!(
        idx_topic_frame_id_from_key(&key).to_u128() == id,
        "C05 frame id recovered from idx_topic key"
    );
    hx_cover!(c1 == c2 && sw == (L1 == L2), "same context: prefix matches iff topics can be equal");
    hx_cover!(!same && c1 != c2, "different context");
}

/// C05: a topic with a NUL byte at any position is rejected.
pub fn k_nul_rejected<const L: usize>() {
    let t = sym_topic::<L>();
    nd::assume(!nul_free(&t));
    let f = frame(t, nd::any_u128(), nd::any_u128());
    hx_check!(idx_topic_key_from_frame(&f).is_err(), "C05 topic containing NUL must be rejected");
    hx_cover!(true, "NUL topic reached");
}

/// C01: byte order of the three key kinds equals id order (same ctx / topic).
pub fn k_key_order<const L: usize>() {
    let a = nd::any_u128();
    let b = nd::any_u128();
    nd::assume(a < b);
    let c = nd::any_u128();
    let t = sym_topic::<L>();
    nd::assume(nul_free(&t));
    let fa = frame(t.clone(), c, a);
    let fb = frame(t, c, b);
    hx_check!(fa.id < fb.id, "C01 Scru128Id order equals u128 order");
    hx_check!(fa.id.as_bytes().to_vec() < fb.id.as_bytes().to_vec(), "C01 primary key order equals id order");
    hx_check!(
        idx_context_key_from_frame(&fa) < idx_context_key_from_frame(&fb),
        "C01 idx_context key order equals id order within a context"
    );
    hx_check!(
        idx_topic_key_from_frame(&fa).unwrap() < idx_topic_key_from_frame(&fb).unwrap(),
        "C01 idx_topic key order equals id order within (context, topic)"
    );
    hx_cover!(true, "reached");
}

/// C06: ctx'||id lies in [ctx, range_end(ctx))  <=>  ctx' == ctx, for generator-produced
/// context ids (timestamp field < 2^48-1, i.e. ctx != all-ones region; see DESIGN C06).
pub fn k_ctx_range() {
    let ctx = nd::any_u128();
    let ctx2 = nd::any_u128();
    let id = nd::any_u128();
    nd::assume(ctx != u128::MAX);
    let f = frame(String::new(), ctx2, id);
    let key = idx_context_key_from_frame(&f);
    let lo = Scru128Id::from_u128(ctx).as_bytes().to_vec();
    let hi = idx_context_key_range_end(Scru128Id::from_u128(ctx));
    let inside = key >= lo && key < hi;
    hx_check!(inside == (ctx == ctx2), "C06 idx_context range [ctx, ctx+1) holds exactly the keys of ctx");
    hx_check!(key.len() == 32, "C06 idx_context key length");
    hx_cover!(inside, "key inside range");
    hx_cover!(!inside && ctx2 == ctx.wrapping_add(1), "adjacent context above");
}

crate::scenarios! {
    unwind 40;
    k_prefix_exact_0_0 => k_prefix_exact::<0, 0>();
    k_prefix_exact_0_1 => k_prefix_exact::<0, 1>();
    k_prefix_exact_1_0 => k_prefix_exact::<1, 0>();
    k_prefix_exact_1_1 => k_prefix_exact::<1, 1>();
    k_prefix_exact_1_2 => k_prefix_exact::<1, 2>();
    k_prefix_exact_2_1 => k_prefix_exact::<2, 1>();
    k_prefix_exact_2_2 => k_prefix_exact::<2, 2>();
    k_prefix_exact_2_3 => k_prefix_exact::<2, 3>();
    k_prefix_exact_3_2 => k_prefix_exact::<3, 2>();
    k_prefix_exact_3_3 => k_prefix_exact::<3, 3>();
    k_prefix_exact_0_3 => k_prefix_exact::<0, 3>();
    k_prefix_exact_3_0 => k_prefix_exact::<3, 0>();
    k_prefix_exact_1_3 => k_prefix_exact::<1, 3>();
    k_prefix_exact_3_1 => k_prefix_exact::<3, 1>();
    k_prefix_exact_0_2 => k_prefix_exact::<0, 2>();
    k_prefix_exact_2_0 => k_prefix_exact::<2, 0>();
    k_prefix_exact_4_4 => k_prefix_exact::<4, 4>();
    k_prefix_exact_3_4 => k_prefix_exact::<3, 4>();
    k_prefix_exact_4_3 => k_prefix_exact::<4, 3>();
    k_nul_rejected_1 => k_nul_rejected::<1>();
    k_nul_rejected_2 => k_nul_rejected::<2>();
    k_nul_rejected_3 => k_nul_rejected::<3>();
    k_nul_rejected_4 => k_nul_rejected::<4>();
    k_key_order_0 => k_key_order::<0>();
    k_key_order_2 => k_key_order::<2>();
    k_ctx_range_all => k_ctx_range();
}
