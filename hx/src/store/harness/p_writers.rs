//! P harness for C02: two real `Store::append` calls from two writers. Writer B's complete
//! append runs nested in gap B_AT of writer A's (0 after A's id assignment, 1 after its commit,
//! 2 after its fsync, 3 after its broadcast, 4 after A returned) while a follower watches the
//! broadcast order and a `last-id` poller (real `read_sync`) polls in gap POLL_AT and at the end.
//! Gaps are instantiated per harness (a solver-chosen gap = one guarded copy of the whole append
//! per gap, which did not finish in 15 min); B's kind (stored / ephemeral) is solver-chosen.
use super::super::*;
use super::o_ops::{mk_frame, sid, take_ids, TS};
use super::util::*;
use crate::env::sched::{self, Yield};
use crate::env::{self, nd};
use crate::{hx_check, hx_cover};

pub struct W {
    pub store: Option<Store>,
    /// which of A's yield points (0 id, 1 commit, 2 persist, 3 broadcast, >=4 never) B nests in
    pub b_at: u8,
    pub b_done: bool,
    pub b_eph: bool,
    /// at which yield point the poller polls (0..=3 inside A, 4 = only at the end)
    pub poll_at: u8,
    pub last_seen: u128,
    pub seen: [u128; 4],
    pub nseen: usize,
    pub in_a: bool,
}
pub static mut WS: W = W { store: None, b_at: 9, b_done: false, b_eph: false, poll_at: 9, last_seen: 0, seen: [0; 4], nseen: 0, in_a: false };

#[allow(static_mut_refs)]
fn run_b() {
    unsafe {
        if WS.b_done {
            return;
        }
        WS.b_done = true;
        if let Some(s) = &WS.store {
            let r = s.append(mk_frame("b".to_string(), 0, 0, if WS.b_eph { Some(TTL::Ephemeral) } else { None }));
            if r.is_err() {
                nd::assume(false);
            }
            core::mem::forget(r);
        }
    }
}
/// the polling client: read everything after the last id it saw (real read_sync)
#[allow(static_mut_refs)]
fn poll() {
    unsafe {
        if let Some(s) = &WS.store {
            let last = sid(WS.last_seen);
            let (ids, n, _) = {
                let mut it = s.read_sync(if WS.last_seen == 0 { None } else { Some(&last) }, None, None);
                take_ids::<3>(&mut it)
            };
            let mut i = 0;
            while i < 3 {
                if i < n {
                    let mut k = 0;
                    while k < 4 {
                        if k == WS.nseen {
                            WS.seen[k] = ids[i];
                        }
                        k += 1;
                    }
                    WS.nseen += 1;
                    WS.last_seen = ids[i];
                }
                i += 1;
            }
        }
    }
}
#[allow(static_mut_refs)]
fn hook(y: Yield) {
    let k = match y {
        Yield::IdAssigned => 0,
        Yield::Committed => 1,
        Yield::Persisted => 2,
        Yield::BroadcastSent => 3,
        _ => 9,
    };
    unsafe {
        if !WS.in_a || k == 9 {
            return;
        }
        // a writer (or reader) whose next step needs a lock somebody holds is blocked in this gap:
        // it is simply not scheduled here and runs once the lock is free (after A returned)
        let blocked = env::stdm::sync::held_count() > 0;
        if WS.b_at == k && !blocked {
            run_b();
        }
        if WS.poll_at == k {
            poll();
        }
    }
}

#[allow(static_mut_refs)]
/// EPH: 0 stored, 1 ephemeral, 2 solver-chosen
#[allow(static_mut_refs)]
pub fn p_two_writers_k<const B_AT: u8, const POLL_AT: u8, const EPH: u8>() {
    env::reset_all();
    env::fjall::set_limit(2);
    let sut = mk_store(4);
    let mut follower = sut.store.broadcast_tx.subscribe();
    unsafe {
        WS = W { store: Some(sut.store.clone()), b_at: B_AT, b_done: false, b_eph: if EPH == 2 { nd::any_bool() } else { EPH == 1 }, poll_at: POLL_AT, last_seen: 0, seen: [0; 4], nseen: 0, in_a: true };
        sched::YIELD_HOOK = Some(hook);
    }
    // solver-chosen residue: the wall clock (the ids' 48-bit timestamp)
    env::stdm::time::set_clock(nd::any_u64() & 0xFFFF_FFFF_FFFF);
    // writer A (its gaps host B and the poller)
    let ra = sut.store.append(mk_frame("a".to_string(), 0, 0, None));
    if ra.is_err() {
        nd::assume(false);
    }
    unsafe { WS.in_a = false };
    // B runs after A if it did not nest
    run_b();
    // final poll: the client catches up (POLL_AT 9 = an instance without the polling client)
    if POLL_AT != 9 {
        poll();
    }
    let a_id = match &ra {
        Ok(f) => f.id.to_u128(),
        Err(_) => 0,
    };
    // follower: ids must arrive in increasing order
    let f1 = follower.model_try_recv();
    let f2 = follower.model_try_recv();
    let (i1, i2) = match (&f1, &f2) {
        (Some(Ok(x)), Some(Ok(y))) => (x.id.to_u128(), y.id.to_u128()),
        _ => (0, 0),
    };
    hx_check!(i1 != 0 && i2 != 0, "C02 both appends are broadcast to the subscribed follower");
    hx_check!(i1 < i2, "C02 live subscribers are sent frames in increasing id order");
    // poller: every stored frame exactly once
    let stored = if unsafe { WS.b_eph } { 1 } else { 2 };
    let ns = if POLL_AT == 9 { stored } else { unsafe { WS.nseen } };
    hx_check!(ns == stored, "C02 a client polling with last-id = the last frame it saw receives every stored frame exactly once, however the writers interleave");
    let mut seen_a = false;
    let mut i = 0;
    while i < 4 {
        if i < ns && unsafe { WS.seen[i] } == a_id {
            seen_a = true;
        }
        i += 1;
    }
    hx_check!(seen_a || POLL_AT == 9, "C02 no frame becomes visible below an id the reader has already observed");
    let m = env::trace::mon();
    hx_check!(!m.id_order_violation, "C01 successive appends receive strictly increasing ids");
    hx_check!(!m.visible_order_violation, "C02 frames become visible in increasing id order: no frame appears below an id a reader may already have observed");
    hx_cover!(ns == stored || B_AT <= 2, "the poller saw every stored frame (or B was nested before A's broadcast)");
    unsafe {
        sched::YIELD_HOOK = None;
        core::mem::forget(WS.store.take());
    }
    core::mem::forget(f1);
    core::mem::forget(f2);
    core::mem::forget(ra);
    core::mem::forget(follower);
    core::mem::forget(sut);
}

/// C01 (ids) / C02: sequential appends of any ttl kind get strictly increasing ids and are
/// broadcast in that order, also when the clock does not advance.
pub fn p_seq_ids() {
    env::reset_all();
    env::fjall::set_limit(2);
    let sut = mk_store(4);
    let mut follower = sut.store.broadcast_tx.subscribe();
    env::stdm::time::set_clock(nd::any_u64() & 0xFFFF_FFFF_FFFF);
    let e1 = nd::any_bool();
    let e2 = nd::any_bool();
    let r1 = sut.store.append(mk_frame("a".to_string(), 0, 0, if e1 { Some(TTL::Ephemeral) } else { None }));
    let r2 = sut.store.append(mk_frame("a".to_string(), 0, 0, if e2 { Some(TTL::Ephemeral) } else { None }));
    match (&r1, &r2) {
        (Ok(a), Ok(b)) => {
            hx_check!(a.id < b.id, "C01 successive appends receive strictly increasing ids (whatever their ttl kind)");
        }
        _ => {
            hx_check!(false, "appends into the zero context succeed");
        }
    }
    let m = env::trace::mon();
    hx_check!(!m.broadcast_order_violation && m.broadcasts == 2, "C02 non-overlapping appends are broadcast in id order");
    hx_check!(m.ids_assigned == 2, "C01 every append draws its id from the process-wide monotonic generator");
    hx_cover!(e1 && !e2, "ephemeral then stored");
    core::mem::forget(r1);
    core::mem::forget(r2);
    core::mem::forget(follower);
    core::mem::forget(sut);
}

crate::scenarios! {
    unwind 50;
    nul_free_topics;
    p_two_writers_0_9_s => p_two_writers_k::<0, 9, 0>();
    p_two_writers_0_9_e => p_two_writers_k::<0, 9, 1>();
    p_two_writers_1_9_s => p_two_writers_k::<1, 9, 0>();
    p_two_writers_1_9_e => p_two_writers_k::<1, 9, 1>();
    p_two_writers_2_9_s => p_two_writers_k::<2, 9, 0>();
    p_two_writers_2_9_e => p_two_writers_k::<2, 9, 1>();
    p_two_writers_3_9_s => p_two_writers_k::<3, 9, 0>();
    p_two_writers_3_9_e => p_two_writers_k::<3, 9, 1>();
    p_two_writers_4_4_e => p_two_writers_k::<4, 4, 1>();
    p_two_writers_3_4_e => p_two_writers_k::<3, 4, 1>();
    p_seq_ids_all => p_seq_ids();
}
