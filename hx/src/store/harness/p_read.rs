//! P harnesses: the real `Store::read` (history OS thread + live task + heartbeat task) and
//! the real `Store::append` under a solver-chosen schedule. Bytes are concrete; the solver
//! chooses the read options, the kinds/contexts of the concurrent appends and the points at
//! which they land (environment-boundary yield points of the reader: before the scan, between
//! two historical deliveries, between scan end and threshold / `done`, before or after the
//! live task's first poll, between consumer takes).
use super::super::*;
use super::o_ops::{mk_frame, sid, TS};
use super::util::*;
use crate::env::sched::{self, Yield};
use crate::env::{self, nd};
use crate::{hx_check, hx_cover};

pub const CX: u128 = 900 * TS + 5; // a registered non-zero context
const H1: u128 = 1001 * TS;
const H2: u128 = 1002 * TS;
const A1: u128 = 2001 * TS;
const A2: u128 = 2002 * TS;

/// harness-global schedule state (plain statics: the yield hook is a fn pointer)
pub struct Plan {
    pub yc: u32,
    /// yield index at which append j fires (u32::MAX = never)
    pub at: [u32; 2],
    pub fired: [bool; 2],
    pub ctx: [u128; 2],
    pub eph: [bool; 2],
    pub store: Option<Store>,
}
pub static mut PLAN: Plan = Plan { yc: 0, at: [u32::MAX; 2], fired: [false; 2], ctx: [0; 2], eph: [false; 2], store: None };

#[allow(static_mut_refs)]
fn fire(j: usize) {
    unsafe {
        if PLAN.fired[j] {
            return;
        }
        PLAN.fired[j] = true;
        let id = if j == 0 { A1 } else { A2 };
        env::scru::force_next(id);
        if let Some(s) = &PLAN.store {
            let r = s.append(Frame {
                topic: "a".to_string(),
                context_id: sid(PLAN.ctx[j]),
                id: sid(0),
                hash: None,
                meta: None,
                ttl: if PLAN.eph[j] { Some(TTL::Ephemeral) } else { None },
            });
            if r.is_err() {
                nd::assume(false);
            }
            core::mem::forget(r);
        }
    }
}
/// C11 lag instances: a burst of BURST stored appends (context 0) lands in the first gap after
/// subscribe, before the live task is polled for the first time; the model's broadcast ring
/// holds 4, so the follower has lagged.
pub const BURST: usize = 5;
pub static mut BURST_ON: bool = false;
#[allow(static_mut_refs)]
fn fire_burst() {
    unsafe {
        let mut k = 0;
        while k < BURST {
            env::scru::force_next(A1 + (k as u128) * TS);
            if let Some(s) = &PLAN.store {
                let r = s.append(Frame { topic: "a".to_string(), context_id: sid(0), id: sid(0), hash: None, meta: None, ttl: None });
                if r.is_err() {
                    nd::assume(false);
                }
                core::mem::forget(r);
            }
            k += 1;
        }
    }
}
/// one scheduling point: appends whose slot has come fire here, in order
#[allow(static_mut_refs)]
pub fn tick() {
    unsafe {
        let now = PLAN.yc;
        PLAN.yc += 1;
        if BURST_ON && now == 0 {
            fire_burst();
        }
        if PLAN.at[0] == now {
            fire(0);
        }
        if PLAN.at[1] == now {
            // order-preserving: the second append never overtakes the first
            if PLAN.fired[0] || PLAN.at[0] == u32::MAX {
                fire(1);
            }
        }
    }
}
fn hook(y: Yield) {
    // the reader's own boundary calls are the interesting gaps; appends' internal yields
    // (commit / persist / broadcast of the nested append itself) are not expanded again
    // one gap per delivery: "after frame k was handed over" (the gap before the first delivery is
    // thread_pre's tick; before-send k+1 and after-send k are the same gap)
    match y {
        Yield::BlockingSendAfter => tick(),
        _ => {}
    }
}

pub struct Log {
    pub n: usize,
    pub id: [u128; 8],
    /// 0 frame, 1 xs.threshold, 2 xs.pulse
    pub kind: [u8; 8],
}
fn drain(rx: &mut env::tokio::sync::mpsc::Receiver<Frame>, log: &mut Log, max: usize) {
    let mut k = 0;
    while k < max {
        if let Ok(f) = rx.try_recv() {
            let kind = if f.topic.as_bytes() == b"xs.threshold" {
                1
            } else if f.topic.as_bytes() == b"xs.pulse" {
                2
            } else {
                0
            };
            let mut i = 0;
            while i < 8 {
                if i == log.n {
                    log.id[i] = f.id.to_u128();
                    log.kind[i] = kind;
                }
                i += 1;
            }
            if log.n >= 8 {
                nd::bound_exceeded("delivery log");
            }
            log.n += 1;
            core::mem::forget(f);
        }
        k += 1;
    }
}

pub struct Obs {
    pub log: Log,
    pub closed: bool,
    pub ran: bool,
    pub tail: bool,
}
pub static mut OBS: Obs = Obs { log: Log { n: 0, id: [0; 8], kind: [0; 8] }, closed: false, ran: false, tail: false };

/// after subscribe, before the historical scan
fn thread_pre() {
    tick();
}
/// after `done` was signalled (or the limit cut the replay short)
fn thread_post() {
    tick();
}
/// Drives the rest of the schedule around the polls of the live task (which `tokio::spawn`
/// performs itself on its statically typed, stack-pinned future - env::sched TASK_DRIVER).
#[allow(static_mut_refs)]
fn task_driver(step: u32, done: bool) -> bool {
    unsafe {
        if step == 0 {
            if OBS.ran {
                return false; // a second task (heartbeat) is not driven by this harness
            }
            OBS.ran = true;
            if OBS.tail {
                tick(); // no history thread ran: this is the first gap after subscribe
            }
            return true; // poll #1
        }
        let mut rx = env::tokio::sync::mpsc::Receiver::<Frame>::model_attach(0);
        let more = if step == 1 {
            tick();
            drain(&mut rx, &mut OBS.log, 2);
            tick();
            true // poll #2
        } else if step == 2 {
            drain(&mut rx, &mut OBS.log, 8);
            // quiescence: everything planned has fired
            let mut j = 0;
            while j < 2 {
                if PLAN.at[j] != u32::MAX && !PLAN.fired[j] {
                    PLAN.at[j] = PLAN.yc;
                    tick();
                }
                j += 1;
            }
            true // poll #3
        } else if step == 3 {
            drain(&mut rx, &mut OBS.log, 8);
            true // poll #4
        } else {
            drain(&mut rx, &mut OBS.log, 8);
            // the only sender left is read()'s own handle (dropped when read() returns)
            OBS.closed = done && rx.model_senders() <= 1 && rx.model_len() == 0;
            false
        };
        core::mem::forget(rx);
        more
    }
}

/// NH pre-existing frames (0..=2), NA concurrent appends (0..=2) landing in gaps AT1 <= AT2
/// (gap 0 = after subscribe before the scan, then one gap after each historical delivery
/// including the threshold, then after `done`, after the live task's first poll, after the
/// consumer's first takes; later = at quiescence).
/// MODE bit 0: 0 = follow=On without limit (C03), 1 = follow=On with a symbolic limit (C11).
/// MODE bit 1: exclude the shapes listed in known_findings.json, so that any *other*
/// violation of the same property still fails the twin instance.
#[allow(static_mut_refs)]
pub fn p_follow<const NH: usize, const NA: usize, const MODE: u8, const AT1: u32, const AT2: u32, const CFG: u32>() {
    // CFG bits (a symbolic choice that forks the store / queue state before further operations does
    // not get through CBMC - probe: one symbolic stored/ephemeral bit = OOM at 40 GB, the same run
    // with the bit fixed = 38 s - so the schedule and the kinds are enumerated per instance):
    // 0 tail, 1 scoped, 2 reader ctx = CX, 3 use last-id, 4 hist[0] in CX, 5 hist[1] in CX,
    // 6 append1 in CX, 7 append2 in CX, 8 append1 ephemeral, 9 append2 ephemeral, 10 snapshot iterators,
    // 11-12 limit (MODE bit 0 only): 1..3
    let bit = |k: u32| (CFG >> k) & 1 == 1;
    env::reset_all();
    unsafe {
        PLAN = Plan { yc: 0, at: [u32::MAX; 2], fired: [false; 2], ctx: [0; 2], eph: [false; 2], store: None };
    }
    let burst = MODE & 4 != 0;
    unsafe { BURST_ON = burst };
    env::fjall::set_limit(NH + NA + 1 + if burst { BURST } else { 0 });
    let snap = bit(10);
    env::fjall::set_snapshot_iters(snap);
    let sut = mk_store(4);
    sut.store.contexts.write().unwrap().insert(sid(CX));
    // solver-chosen residue: the wall clock (48-bit) - the xs.threshold id is drawn from it
    env::stdm::time::set_clock(nd::any_u64() & 0xFFFF_FFFF_FFFF);
    // pre-history: concrete frames, context chosen by the solver
    let hctx = [if bit(4) { CX } else { 0 }, if bit(5) { CX } else { 0 }];
    let hid = [H1, H2];
    let mut i = 0;
    while i < NH {
        env::scru::force_next(hid[i]);
        let r = sut.store.append(mk_frame("a".to_string(), hctx[i], 0, None));
        if r.is_err() {
            nd::assume(false);
        }
        core::mem::forget(r);
        i += 1;
    }
    // read options
    let tail = bit(0);
    let scoped = bit(1);
    let qctx = if bit(2) { CX } else { 0 };
    let use_last = NH > 0 && bit(3);
    let limit = if MODE & 1 == 1 { Some((((CFG >> 11) & 3) as usize).max(1)) } else { None };
    let opts = ReadOptions {
        follow: FollowOption::On,
        tail,
        last_id: if use_last { Some(sid(H1)) } else { None },
        limit,
        context_id: if scoped { Some(sid(qctx)) } else { None },
    };
    // plan the appends
    unsafe {
        PLAN.store = Some(sut.store.clone());
        let mut j = 0;
        while j < NA {
            // the gap an append lands in is fixed per instance (const generic): a solver-chosen gap
            // means one guarded copy of the whole append per gap and did not finish in 20 min
            PLAN.at[j] = if j == 0 { AT1 } else { AT2 };
            PLAN.ctx[j] = if bit(6 + j as u32) { CX } else { 0 };
            PLAN.eph[j] = bit(8 + j as u32);
            j += 1;
        }
        // KF-C03-1: after the follower subscribed, an EPHEMERAL frame is appended and then a
        // STORED one. If the historical scan still picks the stored frame up (appended before
        // the scan started, or during it - fjall iterators are live views), the live task drops
        // the ephemeral frame as "already scanned" (id <= last scanned id).
        let kf_c03_1 = NA == 2 && PLAN.eph[0] && !PLAN.eph[1];
        if kf_c03_1 {
            nd::tag("KF-C03-1 ephemeral-then-stored after subscribe");
        }
        if MODE & 2 != 0 {
            nd::assume(!kf_c03_1);
        }
    }
    env::trace::reset();
    unsafe {
        OBS = Obs { log: Log { n: 0, id: [0; 8], kind: [0; 8] }, closed: false, ran: false, tail };
        sched::YIELD_HOOK = Some(hook);
        sched::THREAD_PRE = Some(thread_pre);
        sched::THREAD_POST = Some(thread_post);
        sched::TASK_DRIVER = Some(task_driver);
    }
    sched::set_inline(true);
    // the whole schedule runs inside read()'s spawn calls (env::sched INLINE)
    let rx = sched::block_on_ready(sut.store.read(opts));
    sched::set_inline(false);
    hx_check!(unsafe { OBS.ran }, "read(follow) starts a live task");
    let log = unsafe { &OBS.log };
    let stream_closed = unsafe { OBS.closed };

    // ---- oracle -------------------------------------------------------------------------
    // expected delivery list: in-scope pre-history after the start position (unless tail),
    // then the in-scope appends in append order
    let mut want = [0u128; 4];
    let mut m = 0;
    let mut n_hist = 0;
    let mut i = 0;
    while i < NH {
        let in_scope = !scoped || hctx[i] == qctx;
        let after = !use_last || hid[i] > H1;
        if !tail && in_scope && after {
            want[m] = hid[i];
            m += 1;
            n_hist += 1;
        }
        i += 1;
    }
    let mut j = 0;
    while j < NA {
        let c = unsafe { PLAN.ctx[j] };
        if !scoped || c == qctx {
            want[m] = if j == 0 { A1 } else { A2 };
            m += 1;
        }
        j += 1;
    }
    let expect_n = match limit {
        Some(l) => {
            if l < m {
                l
            } else {
                m
            }
        }
        None => m,
    };
    // delivered frames (non-synthetic), thresholds
    let mut got = [0u128; 8];
    let mut g = 0;
    let mut thresholds = 0;
    let mut thr_pos = 0; // number of real frames delivered before the threshold
    let mut i = 0;
    while i < 8 {
        if i < log.n {
            if log.kind[i] == 0 {
                got[g] = log.id[i];
                g += 1;
            } else if log.kind[i] == 1 {
                thresholds += 1;
                thr_pos = g;
            }
        }
        i += 1;
    }
    if burst {
        // tail follower, nothing of history; the burst overflowed the ring before the first poll
        hx_check!(g == 0 || !scoped, "C06 a follower scoped to one context is never sent frames of another, also when it lagged");
        hx_check!(g == 0 && stream_closed, "C11 a follower that cannot keep up has its stream ended: it never continues past a frame it did not deliver");
    } else if MODE & 1 == 0 {
        hx_check!(g == expect_n, "C03 a follower receives every in-scope frame after its start position exactly once (none lost, none duplicated, none from another context)");
        hx_check!(got[0] == want[0] && got[1] == want[1] && got[2] == want[2] && got[3] == want[3], "C03 frames are delivered in increasing id order across the history->live hand-off");
        if !tail {
            hx_check!(thresholds == 1, "C03 exactly one xs.threshold when the replay starts from history without a limit");
            hx_check!(thr_pos >= n_hist, "C03 the threshold comes after every frame that existed when the read began");
        } else {
            hx_check!(thresholds == 0, "C11 tail delivers no historical frame and no threshold");
        }
    } else {
        let lim = match limit {
            Some(l) => l,
            None => 0,
        };
        if lim == n_hist && m > n_hist {
            nd::tag("limit==|history| and a live frame follows");
        }
        hx_check!(g == expect_n, "C11 limit=n delivers exactly the first n matching frames, whether they come from history, live delivery or both");
        hx_check!(g < 1 || got[0] == want[0], "C11 the frames delivered under a limit are the first ones");
        hx_check!(g < 2 || got[1] == want[1], "C11 the frames delivered under a limit are the first ones, in order");
        hx_check!(thresholds == 0, "C11 no threshold marker under a limit; synthetic frames never count against it");
        if expect_n == lim {
            hx_check!(stream_closed, "C11 the stream ends once the limit is reached");
        }
    }
    hx_cover!(burst || (unsafe { PLAN.fired[0] } && (NA < 2 || unsafe { PLAN.fired[1] }) && log.n >= 1), "the schedule ran to quiescence: every planned append fired and something was delivered");
    let mon = env::trace::mon();
    let nb = NA + if burst { BURST } else { 0 };
    hx_check!(mon.broadcasts as usize == nb, "C11 synthetic frames are never broadcast: only the appends are");
    hx_check!(mon.commits as usize <= nb, "C11 synthetic frames are never stored");
    unsafe {
        sched::YIELD_HOOK = None;
        core::mem::forget(PLAN.store.take());
    }
    unsafe {
        sched::THREAD_PRE = None;
        sched::THREAD_POST = None;
        sched::TASK_DRIVER = None;
    }
    core::mem::forget(rx);
    core::mem::forget(sut);
}

crate::scenarios! {
    unwind 50;
    nul_free_topics;
    // <NH, NA, MODE, AT1, AT2, CFG>
    p_lag_scoped => p_follow::<0, 0, 4, 99, 99, 0x7>();
    p_lag_all => p_follow::<0, 0, 4, 99, 99, 0x1>();
    p_follow_11_a0_c0 => p_follow::<1, 1, 0, 0, 99, 0x0>();
    p_follow_11_a0_c400 => p_follow::<1, 1, 0, 0, 99, 0x400>();
    p_follow_11_a0_c100 => p_follow::<1, 1, 0, 0, 99, 0x100>();
    p_follow_11_a0_c500 => p_follow::<1, 1, 0, 0, 99, 0x500>();
    p_follow_11_a1_c0 => p_follow::<1, 1, 0, 1, 99, 0x0>();
    p_follow_11_a1_c400 => p_follow::<1, 1, 0, 1, 99, 0x400>();
    p_follow_11_a1_c100 => p_follow::<1, 1, 0, 1, 99, 0x100>();
    p_follow_11_a1_c500 => p_follow::<1, 1, 0, 1, 99, 0x500>();
    p_follow_11_a2_c0 => p_follow::<1, 1, 0, 2, 99, 0x0>();
    p_follow_11_a2_c400 => p_follow::<1, 1, 0, 2, 99, 0x400>();
    p_follow_11_a2_c100 => p_follow::<1, 1, 0, 2, 99, 0x100>();
    p_follow_11_a2_c500 => p_follow::<1, 1, 0, 2, 99, 0x500>();
    p_follow_11_a3_c0 => p_follow::<1, 1, 0, 3, 99, 0x0>();
    p_follow_11_a3_c400 => p_follow::<1, 1, 0, 3, 99, 0x400>();
    p_follow_11_a3_c100 => p_follow::<1, 1, 0, 3, 99, 0x100>();
    p_follow_11_a3_c500 => p_follow::<1, 1, 0, 3, 99, 0x500>();
    p_follow_11_a4_c0 => p_follow::<1, 1, 0, 4, 99, 0x0>();
    p_follow_11_a4_c400 => p_follow::<1, 1, 0, 4, 99, 0x400>();
    p_follow_11_a4_c100 => p_follow::<1, 1, 0, 4, 99, 0x100>();
    p_follow_11_a4_c500 => p_follow::<1, 1, 0, 4, 99, 0x500>();
    p_follow_11_a6_c0 => p_follow::<1, 1, 0, 6, 99, 0x0>();
    p_follow_11_a6_c400 => p_follow::<1, 1, 0, 6, 99, 0x400>();
    p_follow_11_a6_c100 => p_follow::<1, 1, 0, 6, 99, 0x100>();
    p_follow_11_a6_c500 => p_follow::<1, 1, 0, 6, 99, 0x500>();
    p_follow_11_a1_c56 => p_follow::<1, 1, 0, 1, 99, 0x56>();
    p_follow_11_a1_c16 => p_follow::<1, 1, 0, 1, 99, 0x16>();
    p_follow_11_a1_c52 => p_follow::<1, 1, 0, 1, 99, 0x52>();
    p_follow_11_a4_c56 => p_follow::<1, 1, 0, 4, 99, 0x56>();
    p_follow_11_a4_c16 => p_follow::<1, 1, 0, 4, 99, 0x16>();
    p_follow_11_a4_c52 => p_follow::<1, 1, 0, 4, 99, 0x52>();
    p_follow_01_a0_c0 => p_follow::<0, 1, 0, 0, 99, 0x0>();
    p_follow_01_a1_c0 => p_follow::<0, 1, 0, 1, 99, 0x0>();
    p_follow_01_a3_c100 => p_follow::<0, 1, 0, 3, 99, 0x100>();
    p_follow_11_a0_c1 => p_follow::<1, 1, 0, 0, 99, 0x1>();
    p_follow_11_a1_c101 => p_follow::<1, 1, 0, 1, 99, 0x101>();
    p_follow_21_a1_c8 => p_follow::<2, 1, 0, 1, 99, 0x8>();
    p_follow_21_a2_c0 => p_follow::<2, 1, 0, 2, 99, 0x0>();
    p_follow_21_a3_c100 => p_follow::<2, 1, 0, 3, 99, 0x100>();
    p_follow_12_a0_0_c0 => p_follow::<1, 2, 0, 0, 0, 0x0>();
    p_follow_12_a0_0_c300 => p_follow::<1, 2, 0, 0, 0, 0x300>();
    p_follow_12_a0_0_c200 => p_follow::<1, 2, 0, 0, 0, 0x200>();
    p_follow_12_a0_0_c100 => p_follow::<1, 2, 0, 0, 0, 0x100>();
    p_follow_12_a1_1_c0 => p_follow::<1, 2, 0, 1, 1, 0x0>();
    p_follow_12_a1_1_c300 => p_follow::<1, 2, 0, 1, 1, 0x300>();
    p_follow_12_a1_1_c200 => p_follow::<1, 2, 0, 1, 1, 0x200>();
    p_follow_12_a1_1_c100 => p_follow::<1, 2, 0, 1, 1, 0x100>();
    p_follow_12_a0_2_c0 => p_follow::<1, 2, 0, 0, 2, 0x0>();
    p_follow_12_a0_2_c300 => p_follow::<1, 2, 0, 0, 2, 0x300>();
    p_follow_12_a0_2_c200 => p_follow::<1, 2, 0, 0, 2, 0x200>();
    p_follow_12_a0_2_c100 => p_follow::<1, 2, 0, 0, 2, 0x100>();
    p_follow_12_a1_4_c0 => p_follow::<1, 2, 0, 1, 4, 0x0>();
    p_follow_12_a1_4_c300 => p_follow::<1, 2, 0, 1, 4, 0x300>();
    p_follow_12_a1_4_c200 => p_follow::<1, 2, 0, 1, 4, 0x200>();
    p_follow_12_a1_4_c100 => p_follow::<1, 2, 0, 1, 4, 0x100>();
    p_follow_12_a4_4_c0 => p_follow::<1, 2, 0, 4, 4, 0x0>();
    p_follow_12_a4_4_c300 => p_follow::<1, 2, 0, 4, 4, 0x300>();
    p_follow_12_a4_4_c200 => p_follow::<1, 2, 0, 4, 4, 0x200>();
    p_follow_12_a4_4_c100 => p_follow::<1, 2, 0, 4, 4, 0x100>();
    p_follow_12_a2_2_c0 => p_follow::<1, 2, 0, 2, 2, 0x0>();
    p_follow_12_a2_2_c300 => p_follow::<1, 2, 0, 2, 2, 0x300>();
    p_follow_12_a2_2_c200 => p_follow::<1, 2, 0, 2, 2, 0x200>();
    p_follow_12_a2_2_c100 => p_follow::<1, 2, 0, 2, 2, 0x100>();
    p_limit_11_a0_c800 => p_follow::<1, 1, 1, 0, 99, 0x800>();
    p_limit_21_a0_c800 => p_follow::<2, 1, 1, 0, 99, 0x800>();
    p_limit_11_a1_c800 => p_follow::<1, 1, 1, 1, 99, 0x800>();
    p_limit_21_a1_c800 => p_follow::<2, 1, 1, 1, 99, 0x800>();
    p_limit_11_a4_c800 => p_follow::<1, 1, 1, 4, 99, 0x800>();
    p_limit_21_a4_c800 => p_follow::<2, 1, 1, 4, 99, 0x800>();
    p_limit_12_a1_4_c800 => p_follow::<1, 2, 1, 1, 4, 0x800>();
    p_limit_12_a4_4_c800 => p_follow::<1, 2, 1, 4, 4, 0x800>();
    p_limit_02_a0_0_c800 => p_follow::<0, 2, 1, 0, 0, 0x800>();
    p_limit_11_a4_c900 => p_follow::<1, 1, 1, 4, 99, 0x900>();
    p_limit_11_a0_c1000 => p_follow::<1, 1, 1, 0, 99, 0x1000>();
    p_limit_21_a0_c1000 => p_follow::<2, 1, 1, 0, 99, 0x1000>();
    p_limit_11_a1_c1000 => p_follow::<1, 1, 1, 1, 99, 0x1000>();
    p_limit_21_a1_c1000 => p_follow::<2, 1, 1, 1, 99, 0x1000>();
    p_limit_11_a4_c1000 => p_follow::<1, 1, 1, 4, 99, 0x1000>();
    p_limit_21_a4_c1000 => p_follow::<2, 1, 1, 4, 99, 0x1000>();
    p_limit_12_a1_4_c1000 => p_follow::<1, 2, 1, 1, 4, 0x1000>();
    p_limit_12_a4_4_c1000 => p_follow::<1, 2, 1, 4, 4, 0x1000>();
    p_limit_02_a0_0_c1000 => p_follow::<0, 2, 1, 0, 0, 0x1000>();
    p_limit_11_a4_c1100 => p_follow::<1, 1, 1, 4, 99, 0x1100>();
    p_limit_11_a0_c1800 => p_follow::<1, 1, 1, 0, 99, 0x1800>();
    p_limit_21_a0_c1800 => p_follow::<2, 1, 1, 0, 99, 0x1800>();
    p_limit_11_a1_c1800 => p_follow::<1, 1, 1, 1, 99, 0x1800>();
    p_limit_21_a1_c1800 => p_follow::<2, 1, 1, 1, 99, 0x1800>();
    p_limit_11_a4_c1800 => p_follow::<1, 1, 1, 4, 99, 0x1800>();
    p_limit_21_a4_c1800 => p_follow::<2, 1, 1, 4, 99, 0x1800>();
    p_limit_12_a1_4_c1800 => p_follow::<1, 2, 1, 1, 4, 0x1800>();
    p_limit_12_a4_4_c1800 => p_follow::<1, 2, 1, 4, 4, 0x1800>();
    p_limit_02_a0_0_c1800 => p_follow::<0, 2, 1, 0, 0, 0x1800>();
    p_limit_11_a4_c1900 => p_follow::<1, 1, 1, 4, 99, 0x1900>();
}
