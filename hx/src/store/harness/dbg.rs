use crate::env::nd;
use crate::{hx_check, hx_cover};
pub fn dbg_fail() {
    let a = nd::any_u8();
    let b = nd::any_u32();
    hx_check!(a != 7, "DBG a is not seven");
    hx_check!(b != 0x01020304 || a != 9, "DBG combo");
    hx_cover!(a == 3 && a == 4, "DBG impossible cover");
}
pub fn dbg_unwind() {
    let n = nd::any_u8();
    let mut i = 0u8;
    let mut s = 0u32;
    while i < n {
        s += 1;
        i += 1;
    }
    hx_check!(s == n as u32, "DBG sum");
}
pub fn dbg_slow() {
    let a = nd::any_u64();
    let b = nd::any_u64();
    let c = nd::any_u64();
    nd::assume(a > 1 && b > 1 && c > 1 && a < (1 << 21) && b < (1 << 21) && c < (1<<21));
    hx_check!(a * b * c != 1000036000099u64 * 3, "DBG factor");
}
crate::scenarios! {
    unwind 5;
    dbg_fail_1 => dbg_fail();
    dbg_unwind_1 => dbg_unwind();
    dbg_slow_1 => dbg_slow();
}
