//! K harnesses: TTL grammar / expiry arithmetic / option deserialisers (C08, C09, C12).
use super::super::*;
use super::k_keys::sym_topic;
use crate::env::{self, nd};
use crate::{hx_check, hx_cover};
use serde::de::IntoDeserializer;

// ---------------------------------------------------------------------------------------
// C08: is_expired(id, from_millis(n))  <=>  now >= min(ts(id) + n, u64::MAX)
// ---------------------------------------------------------------------------------------
pub fn k_is_expired() {
    let id = nd::any_u128();
    let now_s = nd::any_u64();
    let now_ns = nd::any_u32();
    nd::assume(now_ns < 1_000_000_000);
    let now128 = (now_s as u128) * 1000 + (now_ns / 1_000_000) as u128;
    nd::assume(now128 <= u64::MAX as u128);
    let now = now128 as u64;
    env::stdm::time::set_clock_parts(now_s, now_ns);
    // every Duration whose length in ms fits u64 - a superset of what parse_ttl produces (that
    // from_millis(n).as_millis() == n for every n is k_millis_roundtrip_all's business; feeding
    // `from_millis(n)` itself here makes the solver redo a 64-bit division proof and did not finish)
    let secs = nd::any_u64();
    let nanos = nd::any_u32();
    nd::assume(nanos < 1_000_000_000);
    // the ttl in ms, by the same expression as Duration::as_millis (so the SAT back end sees one
    // divider, not an equivalence proof between two)
    let n128 = (secs as u128) * 1000 + (nanos / 1_000_000) as u128;
    nd::assume(n128 <= u64::MAX as u128);
    let n = n128 as u64;
    let ttl = Duration::new(secs, nanos);
    let sid = Scru128Id::from_u128(id);
    let got = is_expired(&sid, &ttl);
    let ts = (id >> 80) as u64;
    let deadline = match ts.checked_add(n) {
        Some(d) => d,
        None => u64::MAX,
    };
    hx_check!(got == (now >= deadline), "C08 a time:N frame is expired exactly from N ms after its id timestamp (saturating)");
    hx_cover!(got && now == deadline, "expired exactly at the deadline");
    hx_cover!(!got && now + 1 == deadline, "alive one ms before the deadline");
    hx_cover!(n > 1000 && !got && now > ts + n / 1000 + 1, "alive although N seconds-as-ms would have expired it");
}

/// Duration::from_millis(n).as_millis() == n for every u64 (the unit conversion both the
/// serialiser and the expiry check rely on)
pub fn k_millis_roundtrip() {
    let n = nd::any_u64();
    let d = Duration::from_millis(n);
    hx_check!(d.as_millis() == n as u128, "C12 Duration::from_millis(n).as_millis() == n");
    hx_check!((d.as_millis() as u64) == n, "C08 ttl.as_millis() as u64 does not truncate a parse_ttl-produced duration");
    hx_cover!(n == u64::MAX, "max");
}

// ---------------------------------------------------------------------------------------
// C12: parse_ttl is total and equals a reference grammar on every UTF-8 string of L bytes
// ---------------------------------------------------------------------------------------
/// reference for Rust's `str::parse::<uN>()`: optional '+', then 1.. ASCII digits, value <= max
fn ref_uint(b: &[u8], max: u128) -> Option<u128> {
    let mut i = 0;
    if b.len() > 0 && b[0] == b'+' {
        i = 1;
    }
    if i >= b.len() {
        return None;
    }
    let mut v: u128 = 0;
    while i < b.len() {
        let c = b[i];
        if c < b'0' || c > b'9' {
            return None;
        }
        v = v * 10 + (c - b'0') as u128;
        if v > max {
            return None;
        }
        i += 1;
    }
    Some(v)
}
fn starts(b: &[u8], p: &[u8]) -> bool {
    if b.len() < p.len() {
        return false;
    }
    let mut i = 0;
    while i < p.len() {
        if b[i] != p[i] {
            return false;
        }
        i += 1;
    }
    true
}
fn bytes_eq(a: &[u8], b: &[u8]) -> bool {
    a.len() == b.len() && starts(a, b)
}
pub fn ref_parse_ttl(s: &str) -> Option<TTL> {
    let b = s.as_bytes();
    if bytes_eq(b, b"forever") {
        return Some(TTL::Forever);
    }
    if bytes_eq(b, b"ephemeral") {
        return Some(TTL::Ephemeral);
    }
    if starts(b, b"time:") {
        return ref_uint(&b[5..], u64::MAX as u128).map(|v| TTL::Time(Duration::from_millis(v as u64)));
    }
    if starts(b, b"head:") {
        return match ref_uint(&b[5..], u32::MAX as u128) {
            Some(v) if v >= 1 => Some(TTL::Head(v as u32)),
            _ => None,
        };
    }
    None
}
fn ttl_eq(a: &Option<TTL>, b: &Option<TTL>) -> bool {
    match (a, b) {
        (None, None) => true,
        (Some(TTL::Forever), Some(TTL::Forever)) => true,
        (Some(TTL::Ephemeral), Some(TTL::Ephemeral)) => true,
        (Some(TTL::Time(x)), Some(TTL::Time(y))) => x.as_secs() == y.as_secs() && x.subsec_nanos() == y.subsec_nanos(),
        (Some(TTL::Head(x)), Some(TTL::Head(y))) => x == y,
        _ => false,
    }
}
/// every well-formed UTF-8 string of exactly L bytes, optionally with a fixed ASCII prefix
pub fn k_parse_ttl_total<const L: usize>(prefix: &'static str) {
    let tail = sym_topic::<L>();
    let mut s = String::with_capacity(prefix.len() + L);
    s.push_str(prefix);
    s.push_str(&tail);
    let got = parse_ttl(&s).ok();
    let want = ref_parse_ttl(&s);
    hx_check!(ttl_eq(&got, &want), "C12 parse_ttl accepts exactly the TTL grammar (head:0, overflow, signs, junk rejected) with ms units");
    if let Some(TTL::Head(n)) = got {
        hx_check!(n >= 1, "C09 head:0 is never accepted");
    }
    let can_accept = (prefix.len() > 0 && L > 0) || (prefix.len() == 0 && (L == 7 || L == 9));
    hx_cover!(got.is_some() == can_accept, "an accepted TTL of this shape where the grammar has one (else: a rejected one)");
    hx_cover!(got.is_none() || (prefix.len() == 0 && L == 0 && false), "a rejected string of this shape");
}

// ---------------------------------------------------------------------------------------
// C12: TTL round trips through its JSON-string and query spellings (real Serialize /
// Deserialize / to_query code; `format!` modelled, see env::fmt)
// ---------------------------------------------------------------------------------------
/// minimal serde Serializer that captures what the real `impl Serialize for TTL` emits
pub struct StrCapture;
#[derive(Debug)]
pub struct CapErr;
impl core::fmt::Display for CapErr {
    fn fmt(&self, f: &mut core::fmt::Formatter<'_>) -> core::fmt::Result {
        f.write_str("capture error")
    }
}
impl std::error::Error for CapErr {}
impl serde::ser::Error for CapErr {
    fn custom<T: core::fmt::Display>(_m: T) -> Self {
        CapErr
    }
}
impl serde::de::Error for CapErr {
    fn custom<T: core::fmt::Display>(_m: T) -> Self {
        CapErr
    }
}
macro_rules! unsup {
    ($($f:ident($t:ty))*) => {$(
        fn $f(self, _v: $t) -> Result<String, CapErr> { Err(CapErr) }
    )*};
}
impl serde::Serializer for StrCapture {
    type Ok = String;
    type Error = CapErr;
    type SerializeSeq = serde::ser::Impossible<String, CapErr>;
    type SerializeTuple = serde::ser::Impossible<String, CapErr>;
    type SerializeTupleStruct = serde::ser::Impossible<String, CapErr>;
    type SerializeTupleVariant = serde::ser::Impossible<String, CapErr>;
    type SerializeMap = serde::ser::Impossible<String, CapErr>;
    type SerializeStruct = serde::ser::Impossible<String, CapErr>;
    type SerializeStructVariant = serde::ser::Impossible<String, CapErr>;
    fn serialize_str(self, v: &str) -> Result<String, CapErr> {
        Ok(v.to_string())
    }
    unsup! { serialize_bool(bool) serialize_i8(i8) serialize_i16(i16) serialize_i32(i32) serialize_i64(i64)
    serialize_u8(u8) serialize_u16(u16) serialize_u32(u32) serialize_u64(u64) serialize_f32(f32)
    serialize_f64(f64) serialize_char(char) serialize_bytes(&[u8]) }
    fn serialize_none(self) -> Result<String, CapErr> {
        Err(CapErr)
    }
    fn serialize_some<T: ?Sized + serde::Serialize>(self, _v: &T) -> Result<String, CapErr> {
        Err(CapErr)
    }
    fn serialize_unit(self) -> Result<String, CapErr> {
        Err(CapErr)
    }
    fn serialize_unit_struct(self, _n: &'static str) -> Result<String, CapErr> {
        Err(CapErr)
    }
    fn serialize_unit_variant(self, _n: &'static str, _i: u32, _v: &'static str) -> Result<String, CapErr> {
        Err(CapErr)
    }
    fn serialize_newtype_struct<T: ?Sized + serde::Serialize>(self, _n: &'static str, _v: &T) -> Result<String, CapErr> {
        Err(CapErr)
    }
    fn serialize_newtype_variant<T: ?Sized + serde::Serialize>(
        self,
        _n: &'static str,
        _i: u32,
        _v: &'static str,
        _t: &T,
    ) -> Result<String, CapErr> {
        Err(CapErr)
    }
    fn serialize_seq(self, _l: Option<usize>) -> Result<Self::SerializeSeq, CapErr> {
        Err(CapErr)
    }
    fn serialize_tuple(self, _l: usize) -> Result<Self::SerializeTuple, CapErr> {
        Err(CapErr)
    }
    fn serialize_tuple_struct(self, _n: &'static str, _l: usize) -> Result<Self::SerializeTupleStruct, CapErr> {
        Err(CapErr)
    }
    fn serialize_tuple_variant(
        self,
        _n: &'static str,
        _i: u32,
        _v: &'static str,
        _l: usize,
    ) -> Result<Self::SerializeTupleVariant, CapErr> {
        Err(CapErr)
    }
    fn serialize_map(self, _l: Option<usize>) -> Result<Self::SerializeMap, CapErr> {
        Err(CapErr)
    }
    fn serialize_struct(self, _n: &'static str, _l: usize) -> Result<Self::SerializeStruct, CapErr> {
        Err(CapErr)
    }
    fn serialize_struct_variant(
        self,
        _n: &'static str,
        _i: u32,
        _v: &'static str,
        _l: usize,
    ) -> Result<Self::SerializeStructVariant, CapErr> {
        Err(CapErr)
    }
}

use crate::env::fmt::POW10;
/// a symbolic u64 with exactly D decimal digits (so every string length is concrete)
fn num_with_digits<const D: usize>() -> u64 {
    env::fmt::hint_digits(D);
    let n = nd::any_u64();
    if D == 1 {
        nd::assume(n < 10);
    } else if D == 20 {
        nd::assume(n >= POW10[19]);
    } else {
        nd::assume(n >= POW10[D - 1] && n < POW10[D]);
    }
    n
}

/// kind 0 forever, 1 ephemeral, 2 time:n (n has D digits), 3 head:n (n has D digits, <= u32)
pub fn k_ttl_roundtrip<const KIND: u8, const D: usize>() {
    let t = match KIND {
        0 => TTL::Forever,
        1 => TTL::Ephemeral,
        2 => TTL::Time(Duration::from_millis(num_with_digits::<D>())),
        _ => {
            let n = num_with_digits::<D>();
            nd::assume(n >= 1 && n <= u32::MAX as u64);
            TTL::Head(n as u32)
        }
    };
    // JSON string spelling: real Serialize, then real Deserialize
    let js = serde::Serialize::serialize(&t, StrCapture);
    hx_check!(js.is_ok(), "C12 TTL serialises to a string");
    let js = js.unwrap();
    let back: Result<TTL, CapErr> =
        <TTL as serde::Deserialize>::deserialize(serde::de::value::StringDeserializer::<CapErr>::new(js.clone()));
    hx_check!(ttl_eq(&back.ok(), &Some(t.clone())), "C12 TTL survives its JSON-string spelling (ser then de)");
    // query spelling: real to_query; the value after `ttl=` goes through the real parse_ttl
    // (from_query's serde_urlencoded + HashMap decoding is outside this harness, see DESIGN C12)
    let q = t.to_query();
    hx_check!(q.len() > 4 && &q.as_bytes()[..4] == b"ttl=", "C12 to_query emits ttl=<spelling>");
    let back2 = parse_ttl(&q[4..]).ok();
    hx_check!(ttl_eq(&back2, &Some(t.clone())), "C12 TTL survives its query spelling");
    hx_check!(bytes_eq(q[4..].as_bytes(), js.as_bytes()), "C12 query and JSON spellings agree");
    hx_cover!(true, "reached");
}

/// C12: round trip of concrete values at unit boundaries (1 ms, 999 ms, 1 s, 1.5 s, 1 day, u64::MAX ms;
/// head 1, 10, u32::MAX) through the real Serialize -> Deserialize and to_query -> parse_ttl. The
/// solver-quantified versions above (every n with D digits) run the SAT back end out of 40 GB.
pub fn k_ttl_roundtrip_concrete<const KIND: u8, const N: u64>() {
    env::fmt::dec_schoolbook(true);
    let t = if KIND == 2 { TTL::Time(Duration::from_millis(N)) } else { TTL::Head(N as u32) };
    let js = serde::Serialize::serialize(&t, StrCapture);
    hx_check!(js.is_ok(), "C12 TTL serialises to a string");
    let js = js.unwrap();
    let back: Result<TTL, CapErr> =
        <TTL as serde::Deserialize>::deserialize(serde::de::value::StringDeserializer::<CapErr>::new(js.clone()));
    hx_check!(ttl_eq(&back.ok(), &Some(t.clone())), "C12 TTL survives its JSON-string spelling (ser then de)");
    let q = t.to_query();
    hx_check!(q.len() > 4 && &q.as_bytes()[..4] == b"ttl=", "C12 to_query emits ttl=<spelling>");
    let back2 = parse_ttl(&q[4..]).ok();
    hx_check!(ttl_eq(&back2, &Some(t.clone())), "C12 TTL survives its query spelling");
    hx_check!(bytes_eq(q[4..].as_bytes(), js.as_bytes()), "C12 query and JSON spellings agree");
    hx_cover!(true, "reached");
}

// ---------------------------------------------------------------------------------------
// C12: follow / tail option deserialisers vs. their tables, every UTF-8 string of L bytes
// ---------------------------------------------------------------------------------------
pub fn k_follow_option<const L: usize>() {
    let s = sym_topic::<L>();
    let got: Result<FollowOption, CapErr> =
        <FollowOption as serde::Deserialize>::deserialize(serde::de::value::StringDeserializer::<CapErr>::new(s.clone()));
    let b = s.as_bytes();
    let want: Option<FollowOption> = if b.is_empty() || bytes_eq(b, b"yes") || bytes_eq(b, b"true") {
        Some(FollowOption::On)
    } else if let Some(v) = ref_uint(b, u64::MAX as u128) {
        Some(FollowOption::WithHeartbeat(Duration::from_millis(v as u64)))
    } else if bytes_eq(b, b"false") || bytes_eq(b, b"no") {
        Some(FollowOption::Off)
    } else {
        None
    };
    let same = match (&got, &want) {
        (Err(_), None) => true,
        (Ok(FollowOption::On), Some(FollowOption::On)) => true,
        (Ok(FollowOption::Off), Some(FollowOption::Off)) => true,
        (Ok(FollowOption::WithHeartbeat(a)), Some(FollowOption::WithHeartbeat(b))) => a.as_secs() == b.as_secs() && a.subsec_nanos() == b.subsec_nanos(),
        _ => false,
    };
    hx_check!(same, "C12 follow option: ''|yes|true -> on, <u64> -> heartbeat ms, false|no -> off, anything else rejected");
    hx_cover!((L > 0 && want.is_none()) || (L == 0 && want.is_some()), "a rejected follow value (empty string: accepted as on)");
    hx_cover!((L > 0 && matches!(want, Some(FollowOption::WithHeartbeat(_)))) || L == 0, "a heartbeat value");
}
pub fn k_deser_bool<const L: usize>() {
    let s = sym_topic::<L>();
    let got: Result<bool, CapErr> = deserialize_bool(serde::de::value::StringDeserializer::<CapErr>::new(s.clone()));
    let b = s.as_bytes();
    let want = !(bytes_eq(b, b"false") || bytes_eq(b, b"no") || bytes_eq(b, b"0"));
    hx_check!(matches!(got, Ok(v) if v == want), "C12 tail flag: false|no|0 -> false, anything else -> true");
    hx_cover!(true, "reached");
}

crate::scenarios! {
    unwind 45;
    k_is_expired_all => k_is_expired();
    k_millis_roundtrip_all => k_millis_roundtrip();
    k_parse_ttl_any_0 => k_parse_ttl_total::<0>("");
    k_parse_ttl_any_1 => k_parse_ttl_total::<1>("");
    k_parse_ttl_any_4 => k_parse_ttl_total::<4>("");
    k_parse_ttl_any_5 => k_parse_ttl_total::<5>("");
    k_parse_ttl_any_6 => k_parse_ttl_total::<6>("");
    k_parse_ttl_any_7 => k_parse_ttl_total::<7>("");
    k_parse_ttl_any_9 => k_parse_ttl_total::<9>("");
    k_parse_ttl_time_0 => k_parse_ttl_total::<0>("time:");
    k_parse_ttl_time_1 => k_parse_ttl_total::<1>("time:");
    k_parse_ttl_time_2 => k_parse_ttl_total::<2>("time:");
    k_parse_ttl_time_3 => k_parse_ttl_total::<3>("time:");
    k_parse_ttl_time_5 => k_parse_ttl_total::<5>("time:");
    k_parse_ttl_time_8 => k_parse_ttl_total::<8>("time:");
    k_parse_ttl_time_19 => k_parse_ttl_total::<19>("time:");
    k_parse_ttl_time_20 => k_parse_ttl_total::<20>("time:");
    k_parse_ttl_time_21 => k_parse_ttl_total::<21>("time:");
    k_parse_ttl_head_0 => k_parse_ttl_total::<0>("head:");
    k_parse_ttl_head_1 => k_parse_ttl_total::<1>("head:");
    k_parse_ttl_head_2 => k_parse_ttl_total::<2>("head:");
    k_parse_ttl_head_3 => k_parse_ttl_total::<3>("head:");
    k_parse_ttl_head_9 => k_parse_ttl_total::<9>("head:");
    k_parse_ttl_head_10 => k_parse_ttl_total::<10>("head:");
    k_parse_ttl_head_11 => k_parse_ttl_total::<11>("head:");
    k_ttl_roundtrip_forever => k_ttl_roundtrip::<0, 1>();
    k_ttl_roundtrip_ephemeral => k_ttl_roundtrip::<1, 1>();
    k_ttl_roundtrip_time_1 => k_ttl_roundtrip::<2, 1>();
    k_ttl_roundtrip_time_4 => k_ttl_roundtrip::<2, 4>();
    k_ttl_roundtrip_time_7 => k_ttl_roundtrip::<2, 7>();
    k_ttl_roundtrip_time_13 => k_ttl_roundtrip::<2, 13>();
    k_ttl_roundtrip_time_20 => k_ttl_roundtrip::<2, 20>();
    k_ttl_roundtrip_head_1 => k_ttl_roundtrip::<3, 1>();
    k_ttl_roundtrip_head_3 => k_ttl_roundtrip::<3, 3>();
    k_ttl_roundtrip_head_10 => k_ttl_roundtrip::<3, 10>();
    k_ttl_rt_time_1 => k_ttl_roundtrip_concrete::<2, 1>();
    k_ttl_rt_time_999 => k_ttl_roundtrip_concrete::<2, 999>();
    k_ttl_rt_time_1000 => k_ttl_roundtrip_concrete::<2, 1000>();
    k_ttl_rt_time_1500 => k_ttl_roundtrip_concrete::<2, 1500>();
    k_ttl_rt_time_day => k_ttl_roundtrip_concrete::<2, 86400000>();
    k_ttl_rt_time_max => k_ttl_roundtrip_concrete::<2, 18446744073709551615>();
    k_ttl_rt_head_1 => k_ttl_roundtrip_concrete::<3, 1>();
    k_ttl_rt_head_10 => k_ttl_roundtrip_concrete::<3, 10>();
    k_ttl_rt_head_max => k_ttl_roundtrip_concrete::<3, 4294967295>();
    k_follow_option_0 => k_follow_option::<0>();
    k_follow_option_1 => k_follow_option::<1>();
    k_follow_option_2 => k_follow_option::<2>();
    k_follow_option_3 => k_follow_option::<3>();
    k_follow_option_4 => k_follow_option::<4>();
    k_follow_option_5 => k_follow_option::<5>();
    k_deser_bool_0 => k_deser_bool::<0>();
    k_deser_bool_1 => k_deser_bool::<1>();
    k_deser_bool_2 => k_deser_bool::<2>();
    k_deser_bool_5 => k_deser_bool::<5>();
}
