//! `serde_json::{to_vec, from_slice}` *for Frame inside the store*: an injective codec
//! through a side table (the bytes stored in the model partition are a table index).
//! That JSON round-trips frames is NOT assumed silently: it is C12's obligation.
use crate::store::Frame;
use serde::{Deserialize, Serialize};

/// `serde_json::Value` as far as the store is concerned: frame metadata is opaque payload.
/// The real type's recursive BTreeMap drop glue does not get through CBMC once a frame has
/// passed through a symbolic lookup (probe: >15 min, 5 GB), so metadata is modelled by a
/// non-recursive value; JSON fidelity of `meta` is C12's business and is not claimed here.
#[derive(Clone, Copy, PartialEq, Eq, Debug, Default, Serialize, Deserialize)]
pub enum Value {
    #[default]
    Null,
    Bool(bool),
    Number(u64),
    /// short string, inline (no heap: `Frame`'s only heap field stays `topic`)
    Str([u8; 8], usize),
}
impl Value {
    pub fn string(s: &str) -> Value {
        let b = s.as_bytes();
        let mut a = [0u8; 8];
        let n = if b.len() < 8 { b.len() } else { 8 };
        let mut i = 0;
        while i < n {
            a[i] = b[i];
            i += 1;
        }
        Value::Str(a, n)
    }
    pub fn get(&self, _k: &str) -> Option<&Value> {
        None
    }
}

pub const JCAP: usize = 8;
pub const TMAX: usize = 16;

/// One stored frame, decomposed into scalars. A lookup selects *scalars* by case split and
/// then builds ONE fresh `Frame` (one String, concrete capacity): cloning whole `Frame`s under a
/// symbolic index merges heap pointers and made every read cost minutes.
#[derive(Clone, Copy)]
pub struct Row {
    pub used: bool,
    pub tlen: usize,
    pub topic: [u8; TMAX],
    pub ctx: u128,
    pub id: u128,
    /// 0 none, 1 forever, 2 ephemeral, 3 time, 4 head
    pub ttl_kind: u8,
    pub ttl_secs: u64,
    pub ttl_nanos: u32,
    pub ttl_n: u32,
    pub has_hash: bool,
    pub hash: u32,
    /// 0 none, 1 null, 2 bool, 3 number, 4 string (<= 8 bytes)
    pub meta_kind: u8,
    pub meta_num: u64,
    pub meta_slen: usize,
    pub meta_s: [u8; 8],
}
pub const ROW0: Row = Row {
    used: false,
    tlen: 0,
    topic: [0; TMAX],
    ctx: 0,
    id: 0,
    ttl_kind: 0,
    ttl_secs: 0,
    ttl_nanos: 0,
    ttl_n: 0,
    has_hash: false,
    hash: 0,
    meta_kind: 0,
    meta_num: 0,
    meta_slen: 0,
    meta_s: [0; 8],
};
pub static mut TABLE: [Row; JCAP] = [ROW0; JCAP];
pub static mut JN: usize = 0;
/// per-harness concrete bound on table entries (set together with fjall::set_limit): the lookup
/// case split has JLIMIT branches instead of JCAP
pub static mut JLIMIT: usize = JCAP;
pub fn set_limit(n: usize) {
    unsafe { JLIMIT = if n < JCAP { n } else { JCAP } }
}

#[allow(static_mut_refs)]
pub fn reset() {
    unsafe {
        let mut i = 0;
        while i < JCAP {
            TABLE[i] = ROW0;
            i += 1;
        }
        JN = 0;
        JLIMIT = JCAP;
    }
}

#[derive(Debug)]
pub struct Error;
impl core::fmt::Display for Error {
    fn fmt(&self, f: &mut core::fmt::Formatter<'_>) -> core::fmt::Result {
        f.write_str("json model error")
    }
}
impl std::error::Error for Error {}

pub trait AsFrame {
    fn as_frame(&self) -> &Frame;
}
impl AsFrame for Frame {
    fn as_frame(&self) -> &Frame {
        self
    }
}
impl<T: AsFrame> AsFrame for &T {
    fn as_frame(&self) -> &Frame {
        (**self).as_frame()
    }
}

fn row_of(f: &Frame) -> Row {
    let mut r = ROW0;
    r.used = true;
    let tb = f.topic.as_bytes();
    if tb.len() > TMAX {
        crate::env::nd::bound_exceeded("topic longer than the codec model holds");
        return r;
    }
    r.tlen = tb.len();
    let mut i = 0;
    while i < tb.len() {
        r.topic[i] = tb[i];
        i += 1;
    }
    r.ctx = f.context_id.to_u128();
    r.id = f.id.to_u128();
    match &f.ttl {
        None => r.ttl_kind = 0,
        Some(crate::store::TTL::Forever) => r.ttl_kind = 1,
        Some(crate::store::TTL::Ephemeral) => r.ttl_kind = 2,
        Some(crate::store::TTL::Time(d)) => {
            r.ttl_kind = 3;
            r.ttl_secs = d.as_secs();
            r.ttl_nanos = d.subsec_nanos();
        }
        Some(crate::store::TTL::Head(n)) => {
            r.ttl_kind = 4;
            r.ttl_n = *n;
        }
    }
    if let Some(h) = &f.hash {
        r.has_hash = true;
        r.hash = h.token;
    }
    match &f.meta {
        None => r.meta_kind = 0,
        Some(Value::Null) => r.meta_kind = 1,
        Some(Value::Bool(b)) => {
            r.meta_kind = 2;
            r.meta_num = *b as u64;
        }
        Some(Value::Number(n)) => {
            r.meta_kind = 3;
            r.meta_num = *n;
        }
        Some(Value::Str(a, n)) => {
            r.meta_kind = 4;
            r.meta_slen = *n;
            r.meta_s = *a;
        }
    }
    r
}

fn frame_of(r: &Row) -> Frame {
    // one String with concrete capacity, (possibly symbolic) length via truncate
    let mut tv: Vec<u8> = Vec::with_capacity(TMAX);
    let mut i = 0;
    while i < TMAX {
        tv.push(r.topic[i]);
        i += 1;
    }
    tv.truncate(r.tlen);
    // SAFETY: the bytes were taken from a String
    let topic = unsafe { String::from_utf8_unchecked(tv) };
    let ttl = if r.ttl_kind == 0 {
        None
    } else if r.ttl_kind == 1 {
        Some(crate::store::TTL::Forever)
    } else if r.ttl_kind == 2 {
        Some(crate::store::TTL::Ephemeral)
    } else if r.ttl_kind == 3 {
        Some(crate::store::TTL::Time(core::time::Duration::new(r.ttl_secs, r.ttl_nanos)))
    } else {
        Some(crate::store::TTL::Head(r.ttl_n))
    };
    let meta = if r.meta_kind == 0 {
        None
    } else if r.meta_kind == 1 {
        Some(Value::Null)
    } else if r.meta_kind == 2 {
        Some(Value::Bool(r.meta_num != 0))
    } else if r.meta_kind == 3 {
        Some(Value::Number(r.meta_num))
    } else {
        Some(Value::Str(r.meta_s, r.meta_slen))
    };
    Frame {
        topic,
        context_id: scru128::Scru128Id::from_u128(r.ctx),
        id: scru128::Scru128Id::from_u128(r.id),
        hash: if r.has_hash { Some(crate::env::ssri::Integrity { token: r.hash }) } else { None },
        meta,
        ttl,
    }
}

#[allow(static_mut_refs)]
pub fn to_vec<T: AsFrame>(v: &T) -> Result<Vec<u8>, Error> {
    unsafe {
        if JN >= JLIMIT {
            crate::env::nd::bound_exceeded("frame codec table");
            return Err(Error);
        }
        let row = row_of(v.as_frame());
        let mut j = 0;
        while j < JLIMIT {
            if j == JN {
                TABLE[j] = row;
            }
            j += 1;
        }
        let i = JN as u8;
        JN += 1;
        let mut out = Vec::with_capacity(1);
        out.push(i);
        Ok(out)
    }
}

pub trait FromFrame: Sized {
    fn from_frame(f: Frame) -> Self;
}
impl FromFrame for Frame {
    fn from_frame(f: Frame) -> Self {
        f
    }
}

#[allow(static_mut_refs)]
pub fn from_slice<T: FromFrame>(b: &[u8]) -> Result<T, Error> {
    unsafe {
        // Under Kani no `Err` path exists syntactically (xs's panic path behind it drags
        // formatting and validation into every read); that the stored bytes decode is
        // *asserted* first, not silently assumed.
        let ok = b.len() == 1 && JN > 0 && (b[0] as usize) < JN;
        crate::hx_check!(ok, "C12 stored frame bytes decode (value is a codec table index)");
        #[cfg(kani)]
        kani::assume(ok);
        #[cfg(not(kani))]
        if !ok {
            return Err(Error);
        }
        let i = b[0] as usize;
        // select the row's scalars by case split on the (possibly symbolic) index
        let mut row = TABLE[0];
        let mut j = 1;
        while j < JLIMIT {
            if i == j {
                row = TABLE[j];
            }
            j += 1;
        }
        Ok(T::from_frame(frame_of(&row)))
    }
}
