//! `serde_json::{to_vec, from_slice}` *for Frame inside the store*: an injective codec
//! through a side table (the bytes stored in the model partition are a table index).
//! That JSON round-trips frames is NOT assumed silently: it is C12's obligation.
use crate::store::Frame;
use serde::{Deserialize, Serialize};

/// `serde_json::Value` as far as the store is concerned: frame metadata is opaque payload.
/// The real type's recursive BTreeMap drop glue does not get through CBMC once a frame has
/// passed through a symbolic lookup (probe: >15 min, 5 GB), so metadata is modelled by a
/// non-recursive value; JSON fidelity of `meta` is C12's business and is not claimed here.
#[derive(Clone, PartialEq, Eq, Debug, Default, Serialize, Deserialize)]
pub enum Value {
    #[default]
    Null,
    Bool(bool),
    Number(u64),
    String(String),
}
impl Value {
    pub fn as_str(&self) -> Option<&str> {
        match self {
            Value::String(s) => Some(s),
            _ => None,
        }
    }
    pub fn get(&self, _k: &str) -> Option<&Value> {
        None
    }
}

pub const JCAP: usize = 8;
pub static mut TABLE: [Option<Frame>; JCAP] = [
    None, None, None, None, None, None, None, None,
];
pub static mut JN: usize = 0;
/// per-harness concrete bound on table entries (set together with fjall::set_limit): the lookup
/// case split has JLIMIT branches instead of JCAP
pub static mut JLIMIT: usize = JCAP;
pub fn set_limit(n: usize) {
    unsafe { JLIMIT = if n < JCAP { n } else { JCAP } }
}

#[allow(static_mut_refs)]
pub fn reset() {
    unsafe {
        let mut i = 0;
        while i < JCAP {
            TABLE[i] = None;
            i += 1;
        }
        JN = 0;
        JLIMIT = JCAP;
    }
}

#[derive(Debug)]
pub struct Error;
impl core::fmt::Display for Error {
    fn fmt(&self, f: &mut core::fmt::Formatter<'_>) -> core::fmt::Result {
        f.write_str("json model error")
    }
}
impl std::error::Error for Error {}

pub trait AsFrame {
    fn as_frame(&self) -> &Frame;
}
impl AsFrame for Frame {
    fn as_frame(&self) -> &Frame {
        self
    }
}
impl<T: AsFrame> AsFrame for &T {
    fn as_frame(&self) -> &Frame {
        (**self).as_frame()
    }
}

#[allow(static_mut_refs)]
pub fn to_vec<T: AsFrame>(v: &T) -> Result<Vec<u8>, Error> {
    unsafe {
        if JN >= JLIMIT {
            crate::env::nd::bound_exceeded("frame codec table");
            return Err(Error);
        }
        let mut item = Some(v.as_frame().clone());
        let mut j = 0;
        while j < JLIMIT {
            if j == JN {
                // no drop glue for the (empty) previous occupant
                core::mem::forget(core::mem::replace(&mut TABLE[j], item.take()));
            }
            j += 1;
        }
        let i = JN as u8;
        JN += 1;
        let mut out = Vec::with_capacity(1);
        out.push(i);
        Ok(out)
    }
}

pub trait FromFrame: Sized {
    fn from_frame(f: &Frame) -> Self;
}
impl FromFrame for Frame {
    fn from_frame(f: &Frame) -> Self {
        f.clone()
    }
}

#[allow(static_mut_refs)]
pub fn from_slice<T: FromFrame>(b: &[u8]) -> Result<T, Error> {
    unsafe {
        // Case split on the (possibly symbolic) index: each branch reads a concrete slot.
        // Under Kani no `Err` path exists syntactically (xs's panic path behind it drags
        // formatting and validation into every read); that the stored bytes decode is
        // *asserted* first, not silently assumed.
        let ok = b.len() == 1 && JN > 0 && (b[0] as usize) < JN;
        crate::hx_check!(ok, "C12 stored frame bytes decode (value is a codec table index)");
        #[cfg(kani)]
        kani::assume(ok);
        #[cfg(not(kani))]
        if !ok {
            return Err(Error);
        }
        let i = b[0] as usize;
        let mut j = 0;
        // entries >= JN do not exist: the last branch is the default, so JLIMIT-1 comparisons
        let last = if JN > 0 { JN - 1 } else { 0 };
        while j + 1 < JLIMIT {
            if i == j && j < last {
                return Ok(T::from_frame(slot(j)));
            }
            j += 1;
        }
        Ok(T::from_frame(slot_sym(last)))
    }
}
/// `last` may be symbolic after a merge: pick by case split
#[allow(static_mut_refs)]
unsafe fn slot_sym(last: usize) -> &'static Frame {
    let mut j = 0;
    while j + 1 < JLIMIT {
        if j == last {
            return slot(j);
        }
        j += 1;
    }
    slot(JLIMIT - 1)
}
#[allow(static_mut_refs)]
unsafe fn slot(j: usize) -> &'static Frame {
    match &TABLE[j] {
        Some(f) => f,
        None => {
            #[cfg(kani)]
            kani::assume(false);
            unreachable!()
        }
    }
}
