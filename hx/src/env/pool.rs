//! Static storage pools. Model state that holds xs structs (frames in channel buffers, ids in
//! the context set) must not live on the heap: CBMC types heap objects as byte arrays, so every
//! field access through them turns into byte-extract expressions (probe: 3 imports with the
//! frames held in a Vec = 167 s / OOM; the same with the frames in locals = 18 s).
//! Channels and sets are therefore *handles* (an index) into per-payload-type static pools.

pub const QCAP: usize = 6;
pub const NQ: usize = 6;

pub struct Queue<T> {
    /// payloads that can be flattened into words (`Pooled::to_words`) travel here by plain u128
    /// assignment: `Option::take` / `mem::replace` on `buf` are memcpy intrinsics and whatever
    /// passes through them is opaque to CBMC's constant propagation (observed: the `(last_id,
    /// count)` hand-off from the history thread made the live task's `count >= limit` symbolic
    /// and its receive loop unwound to the global bound)
    pub wbuf: [[u128; 3]; QCAP],
    pub buf: [Option<T>; QCAP],
    pub head: usize,
    pub len: usize,
    pub cap: usize,
    pub senders: usize,
    pub receivers: usize,
    pub rx_alive: bool,
    /// broadcast only: total number of messages ever sent
    pub tail: u64,
    /// oneshot only
    pub tx_dropped: bool,
    /// broadcast only, singleton mode: the read cursor of THE live receiver (kept here, not in
    /// the receiver, because receivers get captured in heap futures and become opaque)
    pub cursor: u64,
}
impl<T> Queue<T> {
    pub const NEW: Queue<T> = Queue {
        wbuf: [[0; 3]; QCAP],
        buf: [const { None }; QCAP],
        head: 0,
        len: 0,
        cap: QCAP,
        senders: 0,
        receivers: 0,
        rx_alive: false,
        tail: 0,
        tx_dropped: false,
        cursor: 0,
    };
    pub fn push(&mut self, v: T)
    where
        T: Pooled,
    {
        let at = (self.head + self.len) % QCAP;
        if let Some(w) = v.to_words() {
            let mut i = 0;
            while i < QCAP {
                if i == at {
                    self.wbuf[i] = w;
                }
                i += 1;
            }
            self.len += 1;
            core::mem::forget(v);
            return;
        }
        let mut item = Some(v);
        let mut i = 0;
        while i < QCAP {
            if i == at {
                core::mem::forget(core::mem::replace(&mut self.buf[i], item.take()));
            }
            i += 1;
        }
        self.len += 1;
    }
    pub fn pop(&mut self) -> Option<T>
    where
        T: Pooled,
    {
        if self.len == 0 {
            return None;
        }
        if T::WORDS {
            let mut w = [0u128; 3];
            let mut i = 0;
            while i < QCAP {
                if i == self.head {
                    w = self.wbuf[i];
                }
                i += 1;
            }
            self.head = (self.head + 1) % QCAP;
            self.len -= 1;
            return Some(T::from_words(w));
        }
        let mut out = None;
        let mut i = 0;
        while i < QCAP {
            if i == self.head {
                out = self.buf[i].take();
            }
            i += 1;
        }
        self.head = (self.head + 1) % QCAP;
        self.len -= 1;
        out
    }
}

/// Handles (`Sender{ix}`, `Receiver{ix}`, `Iter{ix}`, `HashSet{ix}`) get captured in boxed
/// closures / futures / iterators by the real code, and whatever went through a Box is opaque
/// to CBMC's constant propagation (memcpy): indexing a pool by such a handle is a symbolic
/// array access - slow, and loop bounds stored there stop being constants (probe: a `for` over
/// a boxed model iterator unwound to the global bound). In the default SINGLETON mode every
/// sub-pool therefore holds exactly one instance and ignores the handle; a harness that needs
/// several instances of one kind calls `multi()` and pays for symbolic indexing.
pub static mut MULTI: bool = false;
pub fn multi() {
    unsafe { MULTI = true }
}
pub fn is_multi() -> bool {
    unsafe { MULTI }
}

pub struct Sub<T> {
    pub q: [Queue<T>; NQ],
    pub used: usize,
}
impl<T> Sub<T> {
    pub const NEW: Sub<T> = Sub { q: [const { Queue::NEW }; NQ], used: 0 };
    pub fn alloc(&mut self) -> usize {
        let cap = if is_multi() { NQ } else { 1 };
        if self.used >= cap {
            super::nd::bound_exceeded("channel pool (singleton mode holds one instance per kind and payload type)");
            return 0;
        }
        let i = self.used;
        self.used += 1;
        i
    }
    pub fn at(&mut self, ix: usize) -> &mut Queue<T> {
        if is_multi() {
            &mut self.q[ix]
        } else {
            &mut self.q[0]
        }
    }
    pub fn reset(&mut self) {
        // no drop glue for whatever the queues still hold (stale payloads are leaked)
        let mut i = 0;
        while i < NQ {
            let q = &mut self.q[i];
            let mut k = 0;
            while k < QCAP {
                core::mem::forget(core::mem::replace(&mut q.buf[k], None));
                k += 1;
            }
            q.wbuf = [[0; 3]; QCAP];
            q.head = 0;
            q.len = 0;
            q.cap = QCAP;
            q.senders = 0;
            q.receivers = 0;
            q.rx_alive = false;
            q.tail = 0;
            q.tx_dropped = false;
            q.cursor = 0;
            i += 1;
        }
        self.used = 0;
    }
}
/// one sub-pool per channel kind
pub struct Pool<T> {
    pub mpsc: Sub<T>,
    pub bcast: Sub<T>,
    pub oneshot: Sub<T>,
}
impl<T> Pool<T> {
    pub const NEW: Pool<T> = Pool { mpsc: Sub::NEW, bcast: Sub::NEW, oneshot: Sub::NEW };
    pub fn reset(&mut self) {
        self.mpsc.reset();
        self.bcast.reset();
        self.oneshot.reset();
    }
}

/// payload types that can travel through model channels
pub trait Pooled: Sized + 'static {
    fn pool() -> &'static mut Pool<Self>;
    /// true for payloads that travel as words
    const WORDS: bool = false;
    fn to_words(&self) -> Option<[u128; 3]> {
        None
    }
    fn from_words(_w: [u128; 3]) -> Self {
        unreachable!()
    }
}

#[macro_export]
macro_rules! pooled {
    ($t:ty, $name:ident) => {
        static mut $name: $crate::env::pool::Pool<$t> = $crate::env::pool::Pool::NEW;
        impl $crate::env::pool::Pooled for $t {
            #[allow(static_mut_refs)]
            fn pool() -> &'static mut $crate::env::pool::Pool<Self> {
                unsafe { &mut $name }
            }
        }
    };
}

// payloads that are not xs-private
pooled!((), POOL_UNIT);
static mut POOL_DONE: Pool<(Option<scru128::Scru128Id>, usize)> = Pool::NEW;
impl Pooled for (Option<scru128::Scru128Id>, usize) {
    #[allow(static_mut_refs)]
    fn pool() -> &'static mut Pool<Self> {
        unsafe { &mut POOL_DONE }
    }
    const WORDS: bool = true;
    fn to_words(&self) -> Option<[u128; 3]> {
        Some([
            if self.0.is_some() { 1 } else { 0 },
            match self.0 {
                Some(id) => id.to_u128(),
                None => 0,
            },
            self.1 as u128,
        ])
    }
    fn from_words(w: [u128; 3]) -> Self {
        (if w[0] == 1 { Some(scru128::Scru128Id::from_u128(w[1])) } else { None }, w[2] as usize)
    }
}

/// concrete budget of successful broadcast receives per harness (see broadcast::model_try_recv)
pub static mut RECV_BUDGET: u32 = 8;
pub fn budget_spent() -> bool {
    unsafe { RECV_BUDGET == 0 }
}
pub fn spend() {
    unsafe {
        if RECV_BUDGET > 0 {
            RECV_BUDGET -= 1;
        }
    }
}
