//! The parts of `std` that are environment: clock, threads, hash containers, locks.
//! Everything else is re-exported from the real std.
pub use ::std::{
    borrow, boxed, cell, clone, cmp, convert, default, error, fmt, future, hash, io, iter, marker,
    mem, num, ops, option, path, pin, rc, result, slice, string, task, vec,
};

pub mod time {
    pub use ::std::time::Duration;
    /// model clock in ms since the epoch; only ever moved forward by harnesses
    pub static mut CLOCK_MS: u64 = 0;
    pub fn set_clock(ms: u64) {
        unsafe { CLOCK_MS = ms }
    }
    pub fn clock() -> u64 {
        unsafe { CLOCK_MS }
    }
    #[derive(Clone, Copy, PartialEq, Eq, PartialOrd, Ord, Debug)]
    pub struct SystemTime(pub u64);
    pub const UNIX_EPOCH: SystemTime = SystemTime(0);
    #[derive(Debug)]
    pub struct SystemTimeError;
    impl SystemTime {
        pub fn now() -> SystemTime {
            SystemTime(clock())
        }
        pub fn duration_since(&self, earlier: SystemTime) -> Result<Duration, SystemTimeError> {
            if self.0 >= earlier.0 {
                Ok(Duration::from_millis(self.0 - earlier.0))
            } else {
                Err(SystemTimeError)
            }
        }
    }
}

pub mod thread {
    pub struct JoinHandle(pub usize);
    /// captured, not run: the harness's schedule decides when (see env::sched)
    pub fn spawn<F: FnOnce() + 'static>(f: F) -> JoinHandle {
        JoinHandle(crate::env::sched::spawn_thread(Box::new(f)))
    }
}

pub mod sync {
    pub use ::std::sync::{Arc, Mutex};
    use core::cell::{Ref, RefCell, RefMut};
    #[derive(Debug)]
    pub struct Poison;
    /// single-threaded model: lock acquisition always succeeds, poisoning out of scope
    #[derive(Default)]
    pub struct RwLock<T>(RefCell<T>);
    impl<T> RwLock<T> {
        pub fn new(t: T) -> Self {
            RwLock(RefCell::new(t))
        }
        pub fn read(&self) -> Result<Ref<'_, T>, Poison> {
            Ok(self.0.borrow())
        }
        pub fn write(&self) -> Result<RefMut<'_, T>, Poison> {
            Ok(self.0.borrow_mut())
        }
    }
}

pub mod collections {
    pub use ::std::collections::{BTreeMap, VecDeque};
    pub const SCAP: usize = 6;
    /// linear small-array set (no hashing). Every loop scans the whole concrete capacity.
    pub struct HashSet<T> {
        items: [Option<T>; SCAP],
    }
    impl<T: PartialEq> HashSet<T> {
        pub fn new() -> Self {
            HashSet { items: [None, None, None, None, None, None] }
        }
        pub fn contains(&self, t: &T) -> bool {
            let mut r = false;
            let mut i = 0;
            while i < SCAP {
                if let Some(x) = &self.items[i] {
                    if x == t {
                        r = true;
                    }
                }
                i += 1;
            }
            r
        }
        pub fn insert(&mut self, t: T) -> bool {
            if self.contains(&t) {
                return false;
            }
            let mut item = Some(t);
            let mut i = 0;
            while i < SCAP {
                if item.is_some() && self.items[i].is_none() {
                    self.items[i] = item.take();
                }
                i += 1;
            }
            if item.is_some() {
                crate::env::nd::bound_exceeded("HashSet model capacity");
                return false;
            }
            true
        }
        pub fn remove(&mut self, t: &T) -> bool {
            let mut r = false;
            let mut i = 0;
            while i < SCAP {
                let hit = match &self.items[i] {
                    Some(x) => x == t,
                    None => false,
                };
                if hit {
                    self.items[i] = None;
                    r = true;
                }
                i += 1;
            }
            r
        }
        pub fn len(&self) -> usize {
            let mut c = 0;
            let mut i = 0;
            while i < SCAP {
                if self.items[i].is_some() {
                    c += 1;
                }
                i += 1;
            }
            c
        }
        pub fn is_empty(&self) -> bool {
            self.len() == 0
        }
        pub fn iter(&self) -> impl Iterator<Item = &T> {
            self.items.iter().filter_map(|x| x.as_ref())
        }
    }
    impl<T: PartialEq> Default for HashSet<T> {
        fn default() -> Self {
            Self::new()
        }
    }

    /// linear small-array map (no hashing); iteration order = slot order, which is *one* of
    /// the orders a real HashMap may produce
    pub struct HashMap<K, V> {
        items: [Option<(K, V)>; SCAP],
    }
    impl<K: PartialEq, V> HashMap<K, V> {
        pub fn new() -> Self {
            HashMap { items: [None, None, None, None, None, None] }
        }
        fn hit<Q: ?Sized>(&self, i: usize, k: &Q) -> bool
        where
            K: core::borrow::Borrow<Q>,
            Q: PartialEq,
        {
            match &self.items[i] {
                Some((x, _)) => x.borrow() == k,
                None => false,
            }
        }
        pub fn insert(&mut self, k: K, v: V) -> Option<V> {
            let mut old = None;
            let mut i = 0;
            while i < SCAP {
                if self.hit(i, &k) {
                    old = self.items[i].take().map(|x| x.1);
                }
                i += 1;
            }
            let mut item = Some((k, v));
            let mut i = 0;
            while i < SCAP {
                if item.is_some() && self.items[i].is_none() {
                    self.items[i] = item.take();
                }
                i += 1;
            }
            if item.is_some() {
                crate::env::nd::bound_exceeded("HashMap model capacity");
            }
            old
        }
        pub fn get<Q: ?Sized>(&self, k: &Q) -> Option<&V>
        where
            K: core::borrow::Borrow<Q>,
            Q: PartialEq,
        {
            let mut i = 0;
            while i < SCAP {
                if self.hit(i, k) {
                    return self.items[i].as_ref().map(|x| &x.1);
                }
                i += 1;
            }
            None
        }
        pub fn get_mut<Q: ?Sized>(&mut self, k: &Q) -> Option<&mut V>
        where
            K: core::borrow::Borrow<Q>,
            Q: PartialEq,
        {
            let mut i = 0;
            while i < SCAP {
                if self.hit(i, k) {
                    return self.items[i].as_mut().map(|x| &mut x.1);
                }
                i += 1;
            }
            None
        }
        pub fn contains_key<Q: ?Sized>(&self, k: &Q) -> bool
        where
            K: core::borrow::Borrow<Q>,
            Q: PartialEq,
        {
            self.get(k).is_some()
        }
        pub fn remove<Q: ?Sized>(&mut self, k: &Q) -> Option<V>
        where
            K: core::borrow::Borrow<Q>,
            Q: PartialEq,
        {
            let mut old = None;
            let mut i = 0;
            while i < SCAP {
                if self.hit(i, k) {
                    old = self.items[i].take().map(|x| x.1);
                }
                i += 1;
            }
            old
        }
        pub fn values(&self) -> impl Iterator<Item = &V> {
            self.items.iter().filter_map(|x| x.as_ref().map(|y| &y.1))
        }
        pub fn iter(&self) -> impl Iterator<Item = (&K, &V)> {
            self.items.iter().filter_map(|x| x.as_ref().map(|y| (&y.0, &y.1)))
        }
        pub fn len(&self) -> usize {
            self.items.iter().filter(|x| x.is_some()).count()
        }
        pub fn is_empty(&self) -> bool {
            self.len() == 0
        }
    }
    impl<K: PartialEq, V> Default for HashMap<K, V> {
        fn default() -> Self {
            Self::new()
        }
    }
}

pub mod str {
    pub use ::std::str::*;
    #[derive(Debug)]
    pub struct Utf8ErrorModel;
    /// same contract as `core::str::from_utf8`, with a plain-loop validator (std's chunked
    /// validator does not get through CBMC); cross-checked against std natively.
    pub fn from_utf8(b: &[u8]) -> Result<&str, Utf8ErrorModel> {
        if crate::env::utf8_ok(b) {
            Ok(unsafe { ::std::str::from_utf8_unchecked(b) })
        } else {
            Err(Utf8ErrorModel)
        }
    }
}
