//! The parts of `std` that are environment: clock, threads, hash containers, locks.
//! Everything else is re-exported from the real std.
pub use ::std::{
    borrow, boxed, cell, clone, cmp, convert, default, error, fmt, future, hash, io, iter, marker,
    mem, num, ops, option, path, pin, rc, result, slice, string, task, vec,
};

pub mod time {
    pub use ::std::time::Duration;
    /// model clock = (seconds, nanoseconds) since the epoch; only ever moved forward by harnesses.
    /// Kept in parts so that `now().duration_since(UNIX_EPOCH)` is built without a division (a
    /// symbolic ms clock forces the SAT back end to prove as_millis(from_millis(x)) == x).
    pub static mut CLOCK_S: u64 = 0;
    pub static mut CLOCK_NS: u32 = 0;
    pub fn set_clock(ms: u64) {
        unsafe {
            CLOCK_S = ms / 1000;
            CLOCK_NS = ((ms % 1000) as u32) * 1_000_000;
        }
    }
    pub fn set_clock_parts(secs: u64, nanos: u32) {
        unsafe {
            CLOCK_S = secs;
            CLOCK_NS = nanos;
        }
    }
    /// the clock in ms (what the id generator stamps into ids)
    pub fn clock() -> u64 {
        unsafe { CLOCK_S.wrapping_mul(1000).wrapping_add((CLOCK_NS / 1_000_000) as u64) }
    }
    #[derive(Clone, Copy, PartialEq, Eq, Debug)]
    pub struct SystemTime {
        pub secs: u64,
        pub nanos: u32,
    }
    pub const UNIX_EPOCH: SystemTime = SystemTime { secs: 0, nanos: 0 };
    #[derive(Debug)]
    pub struct SystemTimeError;
    impl SystemTime {
        pub fn now() -> SystemTime {
            unsafe { SystemTime { secs: CLOCK_S, nanos: CLOCK_NS } }
        }
        pub fn duration_since(&self, earlier: SystemTime) -> Result<Duration, SystemTimeError> {
            if earlier.secs == 0 && earlier.nanos == 0 {
                return Ok(Duration::new(self.secs, self.nanos));
            }
            if (self.secs, self.nanos) >= (earlier.secs, earlier.nanos) {
                Ok(Duration::new(self.secs, self.nanos) - Duration::new(earlier.secs, earlier.nanos))
            } else {
                Err(SystemTimeError)
            }
        }
    }
}

pub mod thread {
    pub struct JoinHandle(pub usize);
    /// captured, not run: the harness's schedule decides when (see env::sched)
    pub fn spawn<F: FnOnce() + 'static>(f: F) -> JoinHandle {
        use crate::env::sched;
        if sched::inline() {
            // see env::sched INLINE: run on the spawner's stack, nothing boxed
            unsafe {
                if let Some(h) = sched::THREAD_PRE {
                    h();
                }
            }
            f();
            unsafe {
                if let Some(h) = sched::THREAD_POST {
                    h();
                }
            }
            return JoinHandle(usize::MAX);
        }
        JoinHandle(sched::spawn_thread(Box::new(f)))
    }
}

pub mod sync {
    pub use ::std::sync::Arc;
    use core::cell::{Cell, Ref, RefCell, RefMut};
    /// Model mutex for the cooperative scheduler: an actor that asks for a lock another actor
    /// holds is *not enabled* at that point, so the schedule that nests it there does not exist
    /// (the path is cut), it is not a deadlock of the code under test.
    /// number of model mutexes currently held (harness schedulers use it: an actor whose next
    /// step is `lock()` on a held mutex is blocked, i.e. simply not scheduled there)
    pub static mut HELD: u32 = 0;
    pub fn held_count() -> u32 {
        unsafe { HELD }
    }
    pub struct Mutex<T> {
        held: Cell<bool>,
        v: RefCell<T>,
    }
    pub struct MutexGuard<'a, T> {
        m: &'a Mutex<T>,
        g: Option<RefMut<'a, T>>,
    }
    impl<T> Mutex<T> {
        pub fn new(t: T) -> Self {
            Mutex { held: Cell::new(false), v: RefCell::new(t) }
        }
        pub fn lock(&self) -> Result<MutexGuard<'_, T>, Poison> {
            if self.held.get() {
                crate::env::nd::bound_exceeded("blocked on a held lock: this interleaving does not exist");
            }
            self.held.set(true);
            unsafe { HELD += 1 };
            Ok(MutexGuard { m: self, g: Some(self.v.borrow_mut()) })
        }
    }
    impl<'a, T> core::ops::Deref for MutexGuard<'a, T> {
        type Target = T;
        fn deref(&self) -> &T {
            self.g.as_ref().unwrap()
        }
    }
    impl<'a, T> core::ops::DerefMut for MutexGuard<'a, T> {
        fn deref_mut(&mut self) -> &mut T {
            self.g.as_mut().unwrap()
        }
    }
    impl<'a, T> Drop for MutexGuard<'a, T> {
        fn drop(&mut self) {
            self.g = None;
            self.m.held.set(false);
            unsafe {
                if HELD > 0 {
                    HELD -= 1;
                }
            }
        }
    }
    impl<T: Default> Default for Mutex<T> {
        fn default() -> Self {
            Mutex::new(T::default())
        }
    }
    #[derive(Debug)]
    pub struct Poison;
    /// single-threaded model: lock acquisition always succeeds, poisoning out of scope
    #[derive(Default)]
    pub struct RwLock<T>(RefCell<T>);
    impl<T> RwLock<T> {
        pub fn new(t: T) -> Self {
            RwLock(RefCell::new(t))
        }
        pub fn read(&self) -> Result<Ref<'_, T>, Poison> {
            Ok(self.0.borrow())
        }
        pub fn write(&self) -> Result<RefMut<'_, T>, Poison> {
            Ok(self.0.borrow_mut())
        }
    }
}

pub mod collections {
    pub use ::std::collections::{BTreeMap, VecDeque};
    pub const SCAP: usize = 6;
    /// linear small-array set (no hashing); the elements live in a static pool (the set is a
    /// handle), because the real code keeps the set behind an `Arc` and heap-resident model
    /// state is what CBMC handles worst. Every loop scans the whole concrete capacity.
    pub const NSETS: usize = 4;
    pub struct SetPool<T> {
        pub items: [[Option<T>; SCAP]; NSETS],
        pub used: usize,
    }
    impl<T> SetPool<T> {
        pub const NEW: SetPool<T> = SetPool { items: [const { [const { None }; SCAP] }; NSETS], used: 0 };
    }
    pub trait SetElem: Sized + PartialEq + 'static {
        fn pool() -> &'static mut SetPool<Self>;
    }
    static mut ID_SETS: SetPool<scru128::Scru128Id> = SetPool::NEW;
    impl SetElem for scru128::Scru128Id {
        #[allow(static_mut_refs)]
        fn pool() -> &'static mut SetPool<Self> {
            unsafe { &mut ID_SETS }
        }
    }
    #[allow(static_mut_refs)]
    pub fn reset_sets() {
        unsafe { ID_SETS = SetPool::NEW }
    }
    pub struct HashSet<T: SetElem> {
        ix: usize,
        _p: core::marker::PhantomData<T>,
    }
    impl<T: SetElem> HashSet<T> {
        pub fn new() -> Self {
            let p = T::pool();
            let cap = if crate::env::pool::is_multi() { NSETS } else { 1 };
            if p.used >= cap {
                crate::env::nd::bound_exceeded("HashSet pool (singleton mode)");
            }
            let ix = p.used;
            p.used += 1;
            HashSet { ix, _p: core::marker::PhantomData }
        }
        fn items(&self) -> &'static mut [Option<T>; SCAP] {
            // the handle sits behind an Arc (heap): see env::pool on singleton mode
            if crate::env::pool::is_multi() {
                &mut T::pool().items[self.ix]
            } else {
                &mut T::pool().items[0]
            }
        }
        pub fn contains(&self, t: &T) -> bool {
            let items = self.items();
            let mut r = false;
            let mut i = 0;
            while i < SCAP {
                if let Some(x) = &items[i] {
                    if x == t {
                        r = true;
                    }
                }
                i += 1;
            }
            r
        }
        pub fn insert(&mut self, t: T) -> bool {
            if self.contains(&t) {
                return false;
            }
            let items = self.items();
            let mut item = Some(t);
            let mut i = 0;
            while i < SCAP {
                if item.is_some() && items[i].is_none() {
                    items[i] = item.take();
                }
                i += 1;
            }
            if item.is_some() {
                crate::env::nd::bound_exceeded("HashSet model capacity");
                return false;
            }
            true
        }
        pub fn remove(&mut self, t: &T) -> bool {
            let items = self.items();
            let mut r = false;
            let mut i = 0;
            while i < SCAP {
                let hit = match &items[i] {
                    Some(x) => x == t,
                    None => false,
                };
                if hit {
                    items[i] = None;
                    r = true;
                }
                i += 1;
            }
            r
        }
        pub fn len(&self) -> usize {
            let items = self.items();
            let mut c = 0;
            let mut i = 0;
            while i < SCAP {
                if items[i].is_some() {
                    c += 1;
                }
                i += 1;
            }
            c
        }
        pub fn is_empty(&self) -> bool {
            self.len() == 0
        }
        pub fn iter(&self) -> impl Iterator<Item = &T> {
            self.items().iter().filter_map(|x| x.as_ref())
        }
    }
    impl<T: SetElem> Default for HashSet<T> {
        fn default() -> Self {
            Self::new()
        }
    }

    /// linear small-array map (no hashing); iteration order = slot order, which is *one* of
    /// the orders a real HashMap may produce
    pub struct HashMap<K, V> {
        items: [Option<(K, V)>; SCAP],
    }
    impl<K: PartialEq, V> HashMap<K, V> {
        pub fn new() -> Self {
            HashMap { items: [None, None, None, None, None, None] }
        }
        fn hit<Q: ?Sized>(&self, i: usize, k: &Q) -> bool
        where
            K: core::borrow::Borrow<Q>,
            Q: PartialEq,
        {
            match &self.items[i] {
                Some((x, _)) => x.borrow() == k,
                None => false,
            }
        }
        pub fn insert(&mut self, k: K, v: V) -> Option<V> {
            let mut old = None;
            let mut i = 0;
            while i < SCAP {
                if self.hit(i, &k) {
                    old = self.items[i].take().map(|x| x.1);
                }
                i += 1;
            }
            let mut item = Some((k, v));
            let mut i = 0;
            while i < SCAP {
                if item.is_some() && self.items[i].is_none() {
                    self.items[i] = item.take();
                }
                i += 1;
            }
            if item.is_some() {
                crate::env::nd::bound_exceeded("HashMap model capacity");
            }
            old
        }
        pub fn get<Q: ?Sized>(&self, k: &Q) -> Option<&V>
        where
            K: core::borrow::Borrow<Q>,
            Q: PartialEq,
        {
            let mut i = 0;
            while i < SCAP {
                if self.hit(i, k) {
                    return self.items[i].as_ref().map(|x| &x.1);
                }
                i += 1;
            }
            None
        }
        pub fn get_mut<Q: ?Sized>(&mut self, k: &Q) -> Option<&mut V>
        where
            K: core::borrow::Borrow<Q>,
            Q: PartialEq,
        {
            let mut i = 0;
            while i < SCAP {
                if self.hit(i, k) {
                    return self.items[i].as_mut().map(|x| &mut x.1);
                }
                i += 1;
            }
            None
        }
        pub fn contains_key<Q: ?Sized>(&self, k: &Q) -> bool
        where
            K: core::borrow::Borrow<Q>,
            Q: PartialEq,
        {
            self.get(k).is_some()
        }
        pub fn remove<Q: ?Sized>(&mut self, k: &Q) -> Option<V>
        where
            K: core::borrow::Borrow<Q>,
            Q: PartialEq,
        {
            let mut old = None;
            let mut i = 0;
            while i < SCAP {
                if self.hit(i, k) {
                    old = self.items[i].take().map(|x| x.1);
                }
                i += 1;
            }
            old
        }
        pub fn values(&self) -> impl Iterator<Item = &V> {
            self.items.iter().filter_map(|x| x.as_ref().map(|y| &y.1))
        }
        pub fn iter(&self) -> impl Iterator<Item = (&K, &V)> {
            self.items.iter().filter_map(|x| x.as_ref().map(|y| (&y.0, &y.1)))
        }
        pub fn len(&self) -> usize {
            self.items.iter().filter(|x| x.is_some()).count()
        }
        pub fn is_empty(&self) -> bool {
            self.len() == 0
        }
    }
    impl<K: PartialEq, V> Default for HashMap<K, V> {
        fn default() -> Self {
            Self::new()
        }
    }
}

pub mod str {
    pub use ::std::str::*;
    #[derive(Debug)]
    pub struct Utf8ErrorModel;
    /// same contract as `core::str::from_utf8`, with a plain-loop validator (std's chunked
    /// validator does not get through CBMC); cross-checked against std natively.
    pub fn from_utf8(b: &[u8]) -> Result<&str, Utf8ErrorModel> {
        if crate::env::utf8_ok(b) {
            Ok(unsafe { ::std::str::from_utf8_unchecked(b) })
        } else {
            Err(Utf8ErrorModel)
        }
    }
}
