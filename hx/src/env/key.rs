//! Fixed-capacity byte key (no heap, no loops at comparison time): length + the bytes packed
//! big-endian into three u128 words, zero padded. Unsigned lexicographic order of byte
//! strings equals (words compared numerically, then length) because 0x00 is the smallest
//! byte: validated natively against slice ordering (tests/smoke.rs).
//! Data that went through memcpy (Vec::extend, clone) is opaque to CBMC's constant
//! propagation, so every byte comparison reaches the solver: three word compares per key
//! instead of a 48-iteration byte loop is what makes stateful harnesses feasible.
pub const KW: usize = 3;
pub const KMAX: usize = 16 * KW;

#[derive(Clone, Copy, Debug)]
pub struct Key {
    pub len: usize,
    pub w: [u128; KW],
}

impl Key {
    pub const EMPTY: Key = Key { len: 0, w: [0; KW] };
    pub fn from_slice(s: &[u8]) -> Key {
        let mut k = Key::EMPTY;
        if s.len() > KMAX {
            super::nd::bound_exceeded("key longer than KMAX");
            return k;
        }
        // one bulk copy into a zeroed buffer, then three word loads: no per-byte loop whose
        // accumulated expression the simplifier has to re-walk 48 times
        let mut buf = [0u8; KMAX];
        buf[..s.len()].copy_from_slice(s);
        let mut j = 0;
        while j < KW {
            let mut wbytes = [0u8; 16];
            wbytes.copy_from_slice(&buf[16 * j..16 * j + 16]);
            k.w[j] = u128::from_be_bytes(wbytes);
            j += 1;
        }
        k.len = s.len();
        k
    }
    pub fn byte(&self, i: usize) -> u8 {
        (self.w[i / 16] >> (8 * (15 - (i % 16)))) as u8
    }
    /// unsigned lexicographic comparison: -1, 0, 1
    pub fn cmp(&self, o: &Key) -> i8 {
        if self.w[0] != o.w[0] {
            return if self.w[0] < o.w[0] { -1 } else { 1 };
        }
        if self.w[1] != o.w[1] {
            return if self.w[1] < o.w[1] { -1 } else { 1 };
        }
        if self.w[2] != o.w[2] {
            return if self.w[2] < o.w[2] { -1 } else { 1 };
        }
        if self.len < o.len {
            -1
        } else if self.len > o.len {
            1
        } else {
            0
        }
    }
    /// mask selecting the first `n` bytes of word `j`
    fn mask(n: usize, j: usize) -> u128 {
        let lo = 16 * j;
        if n <= lo {
            0
        } else if n >= lo + 16 {
            u128::MAX
        } else {
            let bytes = n - lo; // 1..=15
            !(u128::MAX >> (8 * bytes))
        }
    }
    pub fn starts_with(&self, p: &Key) -> bool {
        if p.len > self.len {
            return false;
        }
        ((self.w[0] ^ p.w[0]) & Key::mask(p.len, 0)) == 0
            && ((self.w[1] ^ p.w[1]) & Key::mask(p.len, 1)) == 0
            && ((self.w[2] ^ p.w[2]) & Key::mask(p.len, 2)) == 0
    }
}
impl PartialEq for Key {
    fn eq(&self, o: &Key) -> bool {
        self.len == o.len && self.w[0] == o.w[0] && self.w[1] == o.w[1] && self.w[2] == o.w[2]
    }
}
