//! `format!` inside spliced modules: positional `{}` only, no `core::fmt` machinery
//! (CBMC does not get through `core::fmt` with symbolic integers: DESIGN §0).
//! Integers print in schoolbook decimal. Ids print as a fixed token: no property depends on
//! the text of an error message.
pub trait HxDisplay {
    fn hx_fmt(&self, out: &mut String);
}
impl HxDisplay for str {
    fn hx_fmt(&self, out: &mut String) {
        out.push_str(self)
    }
}
impl HxDisplay for String {
    fn hx_fmt(&self, out: &mut String) {
        out.push_str(self)
    }
}
impl<T: HxDisplay + ?Sized> HxDisplay for &T {
    fn hx_fmt(&self, out: &mut String) {
        (**self).hx_fmt(out)
    }
}
impl<T: HxDisplay + ?Sized> HxDisplay for Box<T> {
    fn hx_fmt(&self, out: &mut String) {
        (**self).hx_fmt(out)
    }
}
pub const POW10: [u64; 20] = [
    1,
    10,
    100,
    1_000,
    10_000,
    100_000,
    1_000_000,
    10_000_000,
    100_000_000,
    1_000_000_000,
    10_000_000_000,
    100_000_000_000,
    1_000_000_000_000,
    10_000_000_000_000,
    100_000_000_000_000,
    1_000_000_000_000_000,
    10_000_000_000_000_000,
    100_000_000_000_000_000,
    1_000_000_000_000_000_000,
    10_000_000_000_000_000_000,
];
/// harness hint: the number about to be printed has exactly this many decimal digits
/// (keeps every string length concrete); checked, not trusted.
pub static mut DIGITS_HINT: usize = 0;
pub fn hint_digits(d: usize) {
    unsafe { DIGITS_HINT = d }
}

/// Decimal printing. Natively: schoolbook division. Under Kani: the digits are fresh solver
/// variables constrained by  sum d_i * 10^i == n, d_i <= 9  (the decimal representation is
/// unique, so this is exactly the printed string) - no division reaches the SAT solver.
/// harness switch: the numbers printed are concrete, use the schoolbook loop (it constant-folds)
pub static mut DEC_SCHOOLBOOK: bool = false;
pub fn dec_schoolbook(b: bool) {
    unsafe { DEC_SCHOOLBOOK = b }
}
pub fn dec(n: u128, out: &mut String) {
    #[cfg(kani)]
    if !unsafe { DEC_SCHOOLBOOK } {
        if n > u64::MAX as u128 {
            crate::env::nd::bound_exceeded("decimal printing of values above u64::MAX");
            return;
        }
        let n = n as u64;
        let hint = unsafe { DIGITS_HINT };
        // with a digit-count hint only that many digit variables exist and the sum stays in u64
        // (a 20 x 128-bit multiplier chain ran the SAT back end out of 40 GB)
        let nd = if hint > 0 { hint } else { 20 };
        let mut d = [0u8; 20];
        if nd <= 19 {
            let mut sum: u64 = 0;
            let mut i = 0;
            while i < nd {
                d[i] = kani::any();
                kani::assume(d[i] <= 9);
                sum += (d[i] as u64) * POW10[i];
                i += 1;
            }
            kani::assume(sum == n);
        } else {
            let mut sum: u128 = 0;
            let mut i = 0;
            while i < 20 {
                d[i] = kani::any();
                kani::assume(d[i] <= 9);
                sum += (d[i] as u128) * (POW10[i] as u128);
                i += 1;
            }
            kani::assume(sum == n as u128);
        }
        if hint > 0 {
            let ok = (hint == 1 || n >= POW10[hint - 1]) && (hint == 20 || n < POW10[hint]);
            kani::assert(ok, "decimal digit-count hint matches the value printed");
            kani::assume(ok);
            let mut i = hint;
            while i > 0 {
                i -= 1;
                out.push((b'0' + d[i]) as char);
            }
        } else {
            let mut k = 1;
            let mut i = 1;
            while i < 20 {
                if n >= POW10[i] {
                    k = i + 1;
                }
                i += 1;
            }
            let mut i = 20;
            while i > 0 {
                i -= 1;
                if i < k {
                    out.push((b'0' + d[i]) as char);
                }
            }
        }
        return;
    }
    #[allow(unreachable_code)]
    {
        let mut n = n;
        let mut buf = [0u8; 40];
        let mut i = 40;
        if n == 0 {
            out.push('0');
            return;
        }
        while n > 0 {
            i -= 1;
            buf[i] = b'0' + (n % 10) as u8;
            n /= 10;
        }
        while i < 40 {
            out.push(buf[i] as char);
            i += 1;
        }
    }
}
macro_rules! int_impl {
    ($($t:ty),*) => {$(
        impl HxDisplay for $t {
            fn hx_fmt(&self, out: &mut String) { dec(*self as u128, out) }
        }
    )*};
}
int_impl!(u8, u16, u32, u64, u128, usize);
impl HxDisplay for scru128::Scru128Id {
    fn hx_fmt(&self, out: &mut String) {
        out.push_str("<id>")
    }
}
macro_rules! opaque_impl {
    ($($t:ty),*) => {$(
        impl HxDisplay for $t {
            fn hx_fmt(&self, out: &mut String) { out.push_str("<opaque>") }
        }
    )*};
}
opaque_impl!(
    crate::env::ssri::Integrity,
    crate::env::cacache::Error,
    std::io::Error,
    scru128::ParseError,
    crate::env::json::Error,
    dyn std::error::Error,
    dyn std::error::Error + Send + Sync
);

pub fn hx_format(f: &str, args: &[&dyn HxDisplay]) -> String {
    let b = f.as_bytes();
    // generous fixed capacity: no growth path inside the loop
    let mut out = String::with_capacity(96);
    let mut i = 0;
    let mut a = 0;
    let mut lit = 0;
    while i < b.len() {
        if b[i] == b'{' && i + 1 < b.len() && b[i + 1] == b'}' {
            out.push_str(&f[lit..i]);
            if a < args.len() {
                args[a].hx_fmt(&mut out);
            }
            a += 1;
            i += 2;
            lit = i;
        } else {
            i += 1;
        }
    }
    out.push_str(&f[lit..]);
    out
}
