//! Model of the fjall API surface xs uses. Partitions are fixed-capacity arrays of
//! append-only slots; ordering is computed at query time by selection (unsigned
//! lexicographic, as fjall documents). Batches apply atomically at `commit`.
use super::key::{Key, KMAX};
use super::nd;
use super::sched::{self, Yield};
use super::trace::{self, Ev};
use core::ops::{Bound, RangeBounds};

pub const CAP: usize = 8;
/// per-harness concrete bound on slots per partition (<= CAP); set once, in straight-line
/// code at the start of a harness, so that CBMC constant-propagates it into every loop bound
pub static mut LIMIT: usize = CAP;
pub fn set_limit(n: usize) {
    unsafe { LIMIT = if n < CAP { n } else { CAP } }
    // one codec table entry per stored frame version (+1 for an overwrite)
    crate::env::json::set_limit(n + 1);
}
pub const NPART: usize = 3;
pub const ALIVE: u32 = u32::MAX;

#[derive(Clone, Copy)]
pub struct Slot {
    pub used: bool,
    pub key: Key,
    pub vlen: usize,
    pub val: [u8; 2],
    pub born: u32,
    pub died: u32,
}
const EMPTY_SLOT: Slot = Slot {
    used: false,
    key: Key::EMPTY,
    vlen: 0,
    val: [0; 2],
    born: 0,
    died: 0,
};
pub struct Part {
    pub n: usize,
    pub slots: [Slot; CAP],
}
const EMPTY_PART: Part = Part { n: 0, slots: [EMPTY_SLOT; CAP] };

pub struct State {
    pub parts: [Part; NPART],
    /// write sequence number (one per committed batch / direct write)
    pub seq: u32,
    /// how many partitions have been opened (name -> pid in open order is fixed below)
    pub opened: u8,
    /// iterator visibility: true = snapshot at creation, false = live view
    pub snapshot_iters: bool,
}
pub static mut ST: State = State {
    parts: [EMPTY_PART; NPART],
    seq: 0,
    opened: 0,
    snapshot_iters: true,
};

pub const P_STREAM: u8 = 0;
pub const P_TOPIC: u8 = 1;
pub const P_CTX: u8 = 2;

#[allow(static_mut_refs)]
pub fn reset() {
    unsafe {
        let mut p = 0;
        while p < NPART {
            ST.parts[p].n = 0;
            let mut i = 0;
            while i < LIMIT {
                ST.parts[p].slots[i] = EMPTY_SLOT;
                i += 1;
            }
            p += 1;
        }
        ST.seq = 0;
        ST.opened = 0;
        ST.snapshot_iters = true;
        LIMIT = CAP;
        NITERS = 0;
    }
}
#[allow(static_mut_refs)]
pub fn set_snapshot_iters(b: bool) {
    unsafe { ST.snapshot_iters = b }
}

#[derive(Debug)]
pub struct Error;
impl core::fmt::Display for Error {
    fn fmt(&self, f: &mut core::fmt::Formatter<'_>) -> core::fmt::Result {
        f.write_str("fjall model error")
    }
}
impl std::error::Error for Error {}
pub type Result<T> = core::result::Result<T, Error>;

pub type Slice = Vec<u8>;
pub type KvPair = (Slice, Slice);

#[derive(Clone, Copy, PartialEq, Debug)]
pub enum PersistMode {
    Buffer,
    SyncData,
    SyncAll,
}

#[derive(Default)]
pub struct PartitionCreateOptions;

pub struct Config;
impl Config {
    pub fn new<P>(_p: P) -> Config {
        Config
    }
    pub fn flush_workers(self, _n: usize) -> Config {
        self
    }
    pub fn compaction_workers(self, _n: usize) -> Config {
        self
    }
    pub fn open(self) -> Result<Keyspace> {
        Ok(Keyspace)
    }
}

#[derive(Clone)]
pub struct Keyspace;
impl Keyspace {
    pub fn open_partition(&self, name: &str, _o: PartitionCreateOptions) -> Result<PartitionHandle> {
        let pid = if name == "stream" {
            P_STREAM
        } else if name == "idx_topic" {
            P_TOPIC
        } else if name == "idx_context" {
            P_CTX
        } else {
            nd::bound_exceeded("unknown partition name");
            0
        };
        Ok(PartitionHandle { pid })
    }
    pub fn batch(&self) -> Batch {
        trace::push(Ev::BatchNew);
        Batch { n: 0, ops: [BOP_NONE; BMAX], durability: None }
    }
    pub fn persist(&self, mode: PersistMode) -> Result<()> {
        trace::push(Ev::Persist { sync_all: mode == PersistMode::SyncAll });
        sched::yield_point(Yield::Persisted);
        Ok(())
    }
}

/// plain struct (no payload-carrying enum: those lower to byte punning in CBMC)
#[derive(Clone, Copy)]
struct BOp {
    /// 0 none, 1 insert, 2 remove
    kind: u8,
    pid: u8,
    key: Key,
    vlen: usize,
    val: [u8; 2],
}
const BOP_NONE: BOp = BOp { kind: 0, pid: 0, key: Key::EMPTY, vlen: 0, val: [0; 2] };
const BMAX: usize = 6;
pub struct Batch {
    n: usize,
    ops: [BOp; BMAX],
    /// fjall's `Batch::durability(mode)`: persist with that mode as part of the commit
    durability: Option<PersistMode>,
}
fn small_val(v: &[u8]) -> (usize, [u8; 2]) {
    let mut a = [0u8; 2];
    if v.len() > 2 {
        nd::bound_exceeded("value longer than 2 bytes in model partition");
        return (0, a);
    }
    let mut i = 0;
    while i < v.len() {
        a[i] = v[i];
        i += 1;
    }
    (v.len(), a)
}
impl Batch {
    pub fn insert<K: AsRef<[u8]>, V: AsRef<[u8]>>(&mut self, p: &PartitionHandle, k: K, v: V) {
        let key = Key::from_slice(k.as_ref());
        let (vlen, val) = small_val(v.as_ref());
        trace::push(Ev::BatchInsert { pid: p.pid });
        if self.n >= BMAX {
            nd::bound_exceeded("batch ops");
            return;
        }
        let mut i = 0;
        while i < BMAX {
            if i == self.n {
                self.ops[i] = BOp { kind: 1, pid: p.pid, key, vlen, val };
            }
            i += 1;
        }
        self.n += 1;
    }
    pub fn remove<K: AsRef<[u8]>>(&mut self, p: &PartitionHandle, k: K) {
        let key = Key::from_slice(k.as_ref());
        trace::push(Ev::BatchRemove { pid: p.pid });
        if self.n >= BMAX {
            nd::bound_exceeded("batch ops");
            return;
        }
        let mut i = 0;
        while i < BMAX {
            if i == self.n {
                self.ops[i] = BOp { kind: 2, pid: p.pid, key, vlen: 0, val: [0; 2] };
            }
            i += 1;
        }
        self.n += 1;
    }
    #[must_use]
    pub fn durability(mut self, mode: Option<PersistMode>) -> Self {
        self.durability = mode;
        self
    }
    #[allow(static_mut_refs)]
    pub fn commit(self) -> Result<()> {
        unsafe {
            ST.seq += 1;
            let seq = ST.seq;
            let mut i = 0;
            while i < BMAX {
                if i < self.n {
                    let op = self.ops[i];
                    if op.kind == 1 {
                        raw_put(op.pid, &op.key, op.vlen, op.val, seq);
                    } else if op.kind == 2 {
                        raw_del(op.pid, &op.key, seq);
                    }
                }
                i += 1;
            }
        }
        trace::push(Ev::Commit { nops: self.n as u8 });
        sched::yield_point(Yield::Committed);
        if let Some(mode) = self.durability {
            trace::push(Ev::Persist { sync_all: mode == PersistMode::SyncAll });
            sched::yield_point(Yield::Persisted);
        }
        Ok(())
    }
}

// All loops below run over the full concrete capacity and index by the loop counter only;
// counters such as `n` may be symbolic after CBMC merges an early-error path with a success
// path, so they are only ever *compared* (case split), never used as an index.
#[allow(static_mut_refs)]
fn raw_put(pid: u8, key: &Key, vlen: usize, val: [u8; 2], seq: u32) {
    unsafe {
        let part = &mut ST.parts[pid as usize];
        // overwrite of a live key: old version dies, new version is born
        let mut i = 0;
        while i < LIMIT {
            let s = &mut part.slots[i];
            if s.used && s.died == ALIVE && s.key == *key {
                s.died = seq;
            }
            i += 1;
        }
        if pid == P_STREAM {
            trace::visible(key.w[0]);
        }
        let n = part.n;
        if n >= LIMIT {
            nd::bound_exceeded("partition slots");
            return;
        }
        let mut i = 0;
        while i < LIMIT {
            if i == n {
                part.slots[i] = Slot { used: true, key: *key, vlen, val, born: seq, died: ALIVE };
            }
            i += 1;
        }
        part.n = n + 1;
    }
}
#[allow(static_mut_refs)]
fn raw_del(pid: u8, key: &Key, seq: u32) {
    unsafe {
        let part = &mut ST.parts[pid as usize];
        let mut i = 0;
        while i < LIMIT {
            let s = &mut part.slots[i];
            if s.used && s.died == ALIVE && s.key == *key {
                s.died = seq;
            }
            i += 1;
        }
    }
}

/// Harness-side: put an entry straight into a partition (building a symbolic pre-state).
#[allow(static_mut_refs)]
pub fn pre_put(pid: u8, key: &[u8], val: &[u8]) {
    let k = Key::from_slice(key);
    let (vlen, v) = small_val(val);
    unsafe {
        ST.seq += 1;
        raw_put(pid, &k, vlen, v, ST.seq);
    }
}
/// Harness-side: is `key` live in partition `pid` right now?
#[allow(static_mut_refs)]
pub fn has_key(pid: u8, key: &[u8]) -> bool {
    let k = Key::from_slice(key);
    unsafe {
        let part = &ST.parts[pid as usize];
        let mut i = 0;
        while i < LIMIT {
            let s = &part.slots[i];
            if s.used && s.died == ALIVE && s.key == k {
                return true;
            }
            i += 1;
        }
    }
    false
}
/// Harness-side: number of live keys in a partition
#[allow(static_mut_refs)]
pub fn live_count(pid: u8) -> usize {
    let mut c = 0;
    unsafe {
        let part = &ST.parts[pid as usize];
        let mut i = 0;
        while i < LIMIT {
            if part.slots[i].used && part.slots[i].died == ALIVE {
                c += 1;
            }
            i += 1;
        }
    }
    c
}
/// Harness-side: i-th slot (raw) of a partition
#[allow(static_mut_refs)]
pub fn slot(pid: u8, i: usize) -> Slot {
    unsafe { ST.parts[pid as usize].slots[i] }
}
#[allow(static_mut_refs)]
pub fn nslots(pid: u8) -> usize {
    unsafe { ST.parts[pid as usize].n }
}

#[derive(Clone)]
pub struct PartitionHandle {
    pub pid: u8,
}

/// kind: 0 unbounded / absent, 1 inclusive, 2 exclusive
#[derive(Clone, Copy)]
struct Bnd {
    kind: u8,
    key: Key,
}
const UNB: Bnd = Bnd { kind: 0, key: Key::EMPTY };
fn conv<K: AsRef<[u8]>>(b: Bound<&K>) -> Bnd {
    match b {
        Bound::Unbounded => UNB,
        Bound::Included(k) => Bnd { kind: 1, key: Key::from_slice(k.as_ref()) },
        Bound::Excluded(k) => Bnd { kind: 2, key: Key::from_slice(k.as_ref()) },
    }
}

/// iterator state lives in a static pool (the real code boxes its iterators: a big struct on
/// the heap is what CBMC handles worst); the value handed to the real code is a handle
pub struct IterState {
    pid: u8,
    lo: Bnd,
    hi: Bnd,
    /// kind 1 = has prefix
    prefix: Bnd,
    /// snapshot view as of `snap_seq` when `snap`, else live view
    snap: bool,
    snap_seq: u32,
    /// cursors (kind 1 = set): last key handed out from the front / back
    fcur: Bnd,
    bcur: Bnd,
    /// concrete call counter: a partition holds at most LIMIT slots, so after LIMIT
    /// emissions the iterator is exhausted (keeps `for`/`find_map` loops over it bounded)
    calls: usize,
}
const IT0: IterState = IterState { pid: 0, lo: UNB, hi: UNB, prefix: UNB, snap: false, snap_seq: 0, fcur: UNB, bcur: UNB, calls: 0 };
pub const NIT: usize = 16;
pub static mut ITERS: [IterState; NIT] = [IT0; NIT];
pub static mut NITERS: usize = 0;
pub struct Iter {
    ix: usize,
}
impl IterState {
    #[allow(static_mut_refs)]
    fn visible(&self, s: &Slot) -> bool {
        if !s.used {
            return false;
        }
        if self.snap {
            s.born <= self.snap_seq && self.snap_seq < s.died
        } else {
            s.died == ALIVE
        }
    }
    fn in_range(&self, k: &Key) -> bool {
        if self.prefix.kind == 1 && !k.starts_with(&self.prefix.key) {
            return false;
        }
        if self.lo.kind == 1 && k.cmp(&self.lo.key) < 0 {
            return false;
        }
        if self.lo.kind == 2 && k.cmp(&self.lo.key) <= 0 {
            return false;
        }
        if self.hi.kind == 1 && k.cmp(&self.hi.key) > 0 {
            return false;
        }
        if self.hi.kind == 2 && k.cmp(&self.hi.key) >= 0 {
            return false;
        }
        if self.fcur.kind == 1 && k.cmp(&self.fcur.key) <= 0 {
            return false;
        }
        if self.bcur.kind == 1 && k.cmp(&self.bcur.key) >= 0 {
            return false;
        }
        true
    }
    /// Selection by case split: the winner's key/value are merged *by value* over a loop
    /// with a concrete index (never `slots[symbolic]`), and the heap objects handed to the
    /// real code are allocated once, on a single control path, with concrete capacity.
    #[allow(static_mut_refs)]
    fn select(&mut self, want_min: bool) -> Option<(Key, KvPair)> {
        if self.calls >= unsafe { LIMIT } {
            return None;
        }
        self.calls += 1;
        let mut found = false;
        let mut bk = Key::EMPTY;
        let mut bvlen = 0usize;
        let mut bval = [0u8; 2];
        unsafe {
            let part = &ST.parts[self.pid as usize];
            let mut i = 0;
            while i < LIMIT {
                let s = &part.slots[i];
                if self.visible(s) && self.in_range(&s.key) {
                    let better = if !found {
                        true
                    } else {
                        let c = s.key.cmp(&bk);
                        (want_min && c < 0) || (!want_min && c > 0)
                    };
                    if better {
                        found = true;
                        bk = s.key;
                        bvlen = s.vlen;
                        bval = s.val;
                    }
                }
                i += 1;
            }
        }
        if !found {
            return None;
        }
        Some((bk, (key_vec(&bk), val_vec(bvlen, &bval))))
    }
}
/// Vec with concrete pointer/capacity and (possibly symbolic) length: no loop whose trip
/// count depends on symbolic data.
pub fn key_vec(k: &Key) -> Vec<u8> {
    let mut v: Vec<u8> = Vec::with_capacity(KMAX);
    v.extend_from_slice(&k.w[0].to_be_bytes());
    v.extend_from_slice(&k.w[1].to_be_bytes());
    v.extend_from_slice(&k.w[2].to_be_bytes());
    v.truncate(k.len);
    v
}
pub fn val_vec(vlen: usize, val: &[u8; 2]) -> Vec<u8> {
    let mut v: Vec<u8> = Vec::with_capacity(2);
    v.push(val[0]);
    v.push(val[1]);
    v.truncate(vlen);
    v
}
impl Iter {
    /// Iterators are used LIFO by the real code (one scan at a time, lookups inside a scan are
    /// not iterators): the state of the innermost live iterator sits at the concrete top of the
    /// stack, so the boxed (opaque) handle never indexes anything.
    #[allow(static_mut_refs)]
    fn st(&self) -> &'static mut IterState {
        unsafe {
            let top = if NITERS > 0 { NITERS - 1 } else { 0 };
            if self.ix != top {
                nd::bound_exceeded("a model iterator other than the innermost live one was advanced");
            }
            &mut ITERS[top]
        }
    }
}
impl Drop for Iter {
    #[allow(static_mut_refs)]
    fn drop(&mut self) {
        unsafe {
            if NITERS > 0 {
                NITERS -= 1;
            }
        }
    }
}
impl Iterator for Iter {
    type Item = Result<KvPair>;
    fn next(&mut self) -> Option<Self::Item> {
        let st = self.st();
        let (k, kv) = st.select(true)?;
        st.fcur = Bnd { kind: 1, key: k };
        Some(Ok(kv))
    }
}
impl DoubleEndedIterator for Iter {
    fn next_back(&mut self) -> Option<Self::Item> {
        let st = self.st();
        let (k, kv) = st.select(false)?;
        st.bcur = Bnd { kind: 1, key: k };
        Some(Ok(kv))
    }
}

impl PartitionHandle {
    #[allow(static_mut_refs)]
    #[allow(static_mut_refs)]
    fn mk_iter(&self, lo: Bnd, hi: Bnd, prefix: Bnd) -> Iter {
        unsafe {
            let (snap, snap_seq) = (ST.snapshot_iters, ST.seq);
            if NITERS >= NIT {
                nd::bound_exceeded("iterator pool");
                return Iter { ix: 0 };
            }
            let ix = NITERS;
            NITERS += 1;
            ITERS[ix] = IterState { pid: self.pid, lo, hi, prefix, snap, snap_seq, fcur: UNB, bcur: UNB, calls: 0 };
            Iter { ix }
        }
    }
    pub fn range<K: AsRef<[u8]>, R: RangeBounds<K>>(&self, r: R) -> Iter {
        self.mk_iter(conv(r.start_bound()), conv(r.end_bound()), UNB)
    }
    pub fn prefix<K: AsRef<[u8]>>(&self, p: K) -> Iter {
        self.mk_iter(UNB, UNB, Bnd { kind: 1, key: Key::from_slice(p.as_ref()) })
    }
    #[allow(static_mut_refs)]
    pub fn get<K: AsRef<[u8]>>(&self, k: K) -> Result<Option<Slice>> {
        let key = Key::from_slice(k.as_ref());
        let mut found = false;
        let mut vlen = 0usize;
        let mut val = [0u8; 2];
        unsafe {
            let part = &ST.parts[self.pid as usize];
            let mut i = 0;
            while i < LIMIT {
                let s = &part.slots[i];
                if s.used && s.died == ALIVE && s.key == key {
                    found = true;
                    vlen = s.vlen;
                    val = s.val;
                }
                i += 1;
            }
        }
        if !found {
            return Ok(None);
        }
        Ok(Some(val_vec(vlen, &val)))
    }
    /// direct (non-batched) write: recorded so that C04 harnesses can see it
    #[allow(static_mut_refs)]
    pub fn insert<K: AsRef<[u8]>, V: AsRef<[u8]>>(&self, k: K, v: V) -> Result<()> {
        let key = Key::from_slice(k.as_ref());
        let (vlen, val) = small_val(v.as_ref());
        trace::push(Ev::DirectWrite { pid: self.pid });
        unsafe {
            ST.seq += 1;
            raw_put(self.pid, &key, vlen, val, ST.seq);
        }
        sched::yield_point(Yield::Committed);
        Ok(())
    }
    #[allow(static_mut_refs)]
    pub fn remove<K: AsRef<[u8]>>(&self, k: K) -> Result<()> {
        let key = Key::from_slice(k.as_ref());
        trace::push(Ev::DirectWrite { pid: self.pid });
        unsafe {
            ST.seq += 1;
            raw_del(self.pid, &key, ST.seq);
        }
        sched::yield_point(Yield::Committed);
        Ok(())
    }
    pub fn len(&self) -> Result<usize> {
        Ok(live_count(self.pid))
    }
    pub fn is_empty(&self) -> Result<bool> {
        Ok(live_count(self.pid) == 0)
    }
}
pub const _KMAX: usize = KMAX;
