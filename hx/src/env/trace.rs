//! Effect monitor: every environment-boundary call made by the real code updates a handful
//! of counters / ordering flags (O(1) per event, no arrays - an event *list* cost more symex
//! time than the code under test).
#[derive(Clone, Copy, PartialEq, Debug)]
pub enum Ev {
    BatchNew,
    BatchInsert { pid: u8 },
    BatchRemove { pid: u8 },
    Commit { nops: u8 },
    Persist { sync_all: bool },
    /// a write issued outside any batch (partition.insert / partition.remove)
    DirectWrite { pid: u8 },
    Broadcast { id: u128 },
    CasWrite,
    IdAssigned { id: u128 },
}

#[derive(Clone, Copy, Debug)]
pub struct Mon {
    pub batches: u32,
    pub batch_inserts: u32,
    pub batch_removes: u32,
    /// bitmask of partitions touched by batch inserts / removes since the last reset
    pub ins_pids: u8,
    pub rem_pids: u8,
    pub commits: u32,
    pub last_commit_nops: u8,
    pub persists_sync_all: u32,
    pub persists_weak: u32,
    /// commits not (yet) followed by a persist(SyncAll)
    pub unsynced_commits: u32,
    pub direct_writes: u32,
    pub broadcasts: u32,
    pub last_broadcast: u128,
    /// a broadcast carried an id <= an earlier broadcast's id
    pub broadcast_order_violation: bool,
    /// a broadcast happened while a commit was not yet persisted
    pub broadcast_before_persist: bool,
    pub cas_writes: u32,
    pub cas_writes_at_last_commit: u32,
    pub ids_assigned: u32,
    pub last_id: u128,
    /// the id generator handed out a non-increasing id (would be an environment bug)
    pub id_order_violation: bool,
    pub events: u32,
    /// event index (1-based) of the last commit / persist / broadcast
    pub at_commit: u32,
    pub at_persist: u32,
    pub at_broadcast: u32,
    /// largest frame id made visible in the primary partition so far, and whether a frame ever
    /// became visible BELOW it (a reader polling in between would have seen the larger id first)
    pub max_visible: u128,
    pub visible_order_violation: bool,
}
pub const MON0: Mon = Mon {
    batches: 0,
    batch_inserts: 0,
    batch_removes: 0,
    ins_pids: 0,
    rem_pids: 0,
    commits: 0,
    last_commit_nops: 0,
    persists_sync_all: 0,
    persists_weak: 0,
    unsynced_commits: 0,
    direct_writes: 0,
    broadcasts: 0,
    last_broadcast: 0,
    broadcast_order_violation: false,
    broadcast_before_persist: false,
    cas_writes: 0,
    cas_writes_at_last_commit: 0,
    ids_assigned: 0,
    last_id: 0,
    id_order_violation: false,
    events: 0,
    at_commit: 0,
    at_persist: 0,
    at_broadcast: 0,
    max_visible: 0,
    visible_order_violation: false,
};
pub static mut MON: Mon = MON0;

pub fn reset() {
    unsafe { MON = MON0 }
}
pub fn mon() -> Mon {
    unsafe { MON }
}
#[allow(static_mut_refs)]
pub fn push(e: Ev) {
    unsafe {
        let m = &mut MON;
        m.events += 1;
        match e {
            Ev::BatchNew => m.batches += 1,
            Ev::BatchInsert { pid } => {
                m.batch_inserts += 1;
                m.ins_pids |= 1 << pid;
            }
            Ev::BatchRemove { pid } => {
                m.batch_removes += 1;
                m.rem_pids |= 1 << pid;
            }
            Ev::Commit { nops } => {
                m.commits += 1;
                m.last_commit_nops = nops;
                m.unsynced_commits += 1;
                m.cas_writes_at_last_commit = m.cas_writes;
                m.at_commit = m.events;
            }
            Ev::Persist { sync_all } => {
                if sync_all {
                    m.persists_sync_all += 1;
                    m.unsynced_commits = 0;
                } else {
                    m.persists_weak += 1;
                }
                m.at_persist = m.events;
            }
            Ev::DirectWrite { .. } => {
                m.direct_writes += 1;
                m.unsynced_commits += 1;
            }
            Ev::Broadcast { id } => {
                if m.broadcasts > 0 && id <= m.last_broadcast {
                    m.broadcast_order_violation = true;
                }
                if m.unsynced_commits > 0 {
                    m.broadcast_before_persist = true;
                }
                m.broadcasts += 1;
                m.last_broadcast = id;
                m.at_broadcast = m.events;
            }
            Ev::CasWrite => m.cas_writes += 1,
            Ev::IdAssigned { id } => {
                if m.ids_assigned > 0 && id <= m.last_id {
                    m.id_order_violation = true;
                }
                m.ids_assigned += 1;
                m.last_id = id;
            }
        }
    }
}

/// called by the fjall model when a key becomes visible in the primary (`stream`) partition
#[allow(static_mut_refs)]
pub fn visible(id: u128) {
    unsafe {
        if id < MON.max_visible {
            MON.visible_order_violation = true;
        }
        if id > MON.max_visible {
            MON.max_visible = id;
        }
    }
}
