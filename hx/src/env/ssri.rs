//! `ssri::Integrity` is environment (hashing is not modelled): an opaque content token.
use serde::{Deserialize, Serialize};

#[derive(Clone, Copy, PartialEq, Eq, Debug, Serialize, Deserialize, Hash)]
pub struct Integrity {
    pub token: u32,
}
#[derive(Debug)]
pub struct Error;
impl core::fmt::Display for Error {
    fn fmt(&self, f: &mut core::fmt::Formatter<'_>) -> core::fmt::Result {
        f.write_str("ssri model error")
    }
}
impl std::error::Error for Error {}
impl core::fmt::Display for Integrity {
    fn fmt(&self, f: &mut core::fmt::Formatter<'_>) -> core::fmt::Result {
        f.write_str("sha256-model")
    }
}
impl core::str::FromStr for Integrity {
    type Err = Error;
    fn from_str(_s: &str) -> Result<Self, Error> {
        Err(Error)
    }
}
