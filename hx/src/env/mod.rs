//! Environment model = trusted base of every claim (see DESIGN.md §2.3).
pub mod cacache;
pub mod fjall;
pub mod fmt;
pub mod json;
pub mod key;
pub mod nd;
pub mod pool;
pub mod sched;
pub mod scru;
pub mod ssri;
pub mod stdm;
pub mod tokio;
pub mod trace;

/// reset every piece of model state (statics are shared across scenarios natively)
pub fn reset_all() {
    // under Kani every harness starts from freshly initialised statics
    #[cfg(kani)]
    return;
    #[allow(unreachable_code)]
    fjall::reset();
    cacache::reset();
    json::reset();
    sched::reset();
    scru::reset();
    trace::reset();
    unsafe { pool::MULTI = false };
    unsafe { pool::RECV_BUDGET = 8 };
    unsafe { stdm::sync::HELD = 0 };
    stdm::collections::reset_sets();
    crate::store::harness::reset_pools();
    stdm::time::set_clock(0);
}

/// no-op `tracing` surface
pub mod tracing {
    pub use hxm::instrument;
    #[macro_export]
    macro_rules! hx_trace_noop {
        ($($t:tt)*) => {};
    }
    pub use crate::hx_trace_noop as error;
    pub use crate::hx_trace_noop as info;
    pub use crate::hx_trace_noop as warn;
    pub use crate::hx_trace_noop as debug;
}

/// exact UTF-8 well-formedness (RFC 3629 table) as a plain loop: `String::from_utf8`'s
/// chunked validator does not get through CBMC (probe: 14 min, OOM), this does.
pub fn utf8_ok(b: &[u8]) -> bool {
    let n = b.len();
    let mut i = 0;
    while i < n {
        let c = b[i];
        if c < 0x80 {
            i += 1;
        } else if c >= 0xC2 && c <= 0xDF {
            if i + 1 >= n || b[i + 1] & 0xC0 != 0x80 {
                return false;
            }
            i += 2;
        } else if c >= 0xE0 && c <= 0xEF {
            if i + 2 >= n {
                return false;
            }
            let d = b[i + 1];
            let lo = if c == 0xE0 { 0xA0 } else { 0x80 };
            let hi = if c == 0xED { 0x9F } else { 0xBF };
            if d < lo || d > hi || b[i + 2] & 0xC0 != 0x80 {
                return false;
            }
            i += 3;
        } else if c >= 0xF0 && c <= 0xF4 {
            if i + 3 >= n {
                return false;
            }
            let d = b[i + 1];
            let lo = if c == 0xF0 { 0x90 } else { 0x80 };
            let hi = if c == 0xF4 { 0x8F } else { 0xBF };
            if d < lo || d > hi || b[i + 2] & 0xC0 != 0x80 || b[i + 3] & 0xC0 != 0x80 {
                return false;
            }
            i += 4;
        } else {
            return false;
        }
    }
    true
}

/// "process restart" for reopen harnesses: in-memory model state (channel pools, registry sets,
/// task table, iterators) is forgotten, the keyspace (fjall partitions, codec table) survives.
pub fn restart_memory() {
    stdm::collections::reset_sets();
    crate::store::harness::reset_pools();
    sched::reset();
    unsafe { fjall::NITERS = 0 };
}
