//! Model of the tokio surface xs uses: channels with tokio's documented semantics over
//! static storage pools (see env::pool), `spawn` capturing the future in the scheduler's
//! task table.
#![allow(dead_code)]
use super::nd;
use super::pool::{Pooled, QCAP};
use super::sched::{self, Yield};
use super::trace::{self, Ev};
use core::future::Future;
use core::marker::PhantomData;
use core::pin::Pin;
use core::task::{Context, Poll};

pub use ::tokio::io;

pub struct JoinHandle(pub usize);

pub fn spawn<F: Future<Output = ()> + 'static>(f: F) -> JoinHandle {
    if sched::inline() {
        // see env::sched INLINE: the task lives on this stack frame while the hook drives it.
        // Pinned in place (no `pin!` move: moving a large generator is a memcpy and makes every
        // captured value opaque to constant propagation).
        let mut f = f;
        // SAFETY: `f` is never moved again and is dropped at the end of this frame
        let mut p = unsafe { Pin::new_unchecked(&mut f) };
        unsafe {
            if let Some(d) = sched::TASK_DRIVER {
                let w = sched::noop_waker();
                let mut cx = Context::from_waker(&w);
                let mut step = 0u32;
                let mut done = false;
                while step < 8 {
                    if !d(step, done) {
                        break;
                    }
                    if !done {
                        done = matches!(p.as_mut().poll(&mut cx), Poll::Ready(()));
                    }
                    step += 1;
                }
                return JoinHandle(usize::MAX);
            }
            if let Some(h) = sched::TASK_HOOK {
                let d: Pin<&mut dyn Future<Output = ()>> = p.as_mut();
                h(d);
            }
        }
        return JoinHandle(usize::MAX);
    }
    JoinHandle(sched::spawn_future(Box::pin(f)))
}

pub mod task {
    pub use super::spawn;
}

pub mod time {
    use super::*;
    use core::time::Duration;
    /// one `Pending`, then ready: timers fire "eventually", the scheduler decides when
    pub struct Sleep {
        polled: bool,
    }
    pub fn sleep(_d: Duration) -> Sleep {
        Sleep { polled: false }
    }
    impl Future for Sleep {
        type Output = ();
        fn poll(mut self: Pin<&mut Self>, _cx: &mut Context<'_>) -> Poll<()> {
            if self.polled {
                Poll::Ready(())
            } else {
                self.polled = true;
                Poll::Pending
            }
        }
    }
}

pub mod sync {
    pub mod mpsc {
        use super::super::*;

        pub mod error {
            #[derive(Debug)]
            pub struct SendError<T>(pub T);
            impl<T> core::fmt::Display for SendError<T> {
                fn fmt(&self, f: &mut core::fmt::Formatter<'_>) -> core::fmt::Result {
                    f.write_str("channel closed")
                }
            }
            impl<T: core::fmt::Debug> std::error::Error for SendError<T> {}
        }
        pub use error::SendError;

        pub struct Sender<T: Pooled> {
            ix: usize,
            _p: PhantomData<T>,
        }
        pub struct UnboundedSender<T: Pooled> {
            ix: usize,
            _p: PhantomData<T>,
        }
        pub struct Receiver<T: Pooled> {
            ix: usize,
            /// harness-side extra handle (model_clone): does not close the queue on drop
            shadow: bool,
            _p: PhantomData<T>,
        }
        pub type UnboundedReceiver<T> = Receiver<T>;

        fn mk<T: Pooled>(cap: usize) -> usize {
            let p = &mut T::pool().mpsc;
            let ix = p.alloc();
            let q = p.at(ix);
            q.cap = if cap < QCAP { cap } else { QCAP };
            q.senders = 1;
            q.receivers = 1;
            q.rx_alive = true;
            ix
        }
        /// bounded channel; the model holds at most QCAP items whatever `cap` says
        /// (a producer that would need more is a cut path, see `blocking_send`).
        pub fn channel<T: Pooled>(cap: usize) -> (Sender<T>, Receiver<T>) {
            let ix = mk::<T>(cap);
            (Sender { ix, _p: PhantomData }, Receiver { ix, shadow: false, _p: PhantomData })
        }
        pub fn unbounded_channel<T: Pooled>() -> (UnboundedSender<T>, Receiver<T>) {
            let ix = mk::<T>(QCAP);
            (UnboundedSender { ix, _p: PhantomData }, Receiver { ix, shadow: false, _p: PhantomData })
        }

        impl<T: Pooled> Clone for Sender<T> {
            fn clone(&self) -> Self {
                T::pool().mpsc.at(self.ix).senders += 1;
                Sender { ix: self.ix, _p: PhantomData }
            }
        }
        impl<T: Pooled> Drop for Sender<T> {
            fn drop(&mut self) {
                let q = T::pool().mpsc.at(self.ix);
                // (native runs reset the pools between scenarios; stale handles must not underflow)
                if q.senders > 0 {
                    q.senders -= 1;
                }
            }
        }
        impl<T: Pooled> Clone for UnboundedSender<T> {
            fn clone(&self) -> Self {
                T::pool().mpsc.at(self.ix).senders += 1;
                UnboundedSender { ix: self.ix, _p: PhantomData }
            }
        }
        impl<T: Pooled> Drop for UnboundedSender<T> {
            fn drop(&mut self) {
                let q = T::pool().mpsc.at(self.ix);
                // (native runs reset the pools between scenarios; stale handles must not underflow)
                if q.senders > 0 {
                    q.senders -= 1;
                }
            }
        }
        impl<T: Pooled> Drop for Receiver<T> {
            fn drop(&mut self) {
                if !self.shadow {
                    T::pool().mpsc.at(self.ix).rx_alive = false;
                }
            }
        }
        impl<T: Pooled> UnboundedSender<T> {
            pub fn send(&self, v: T) -> Result<(), SendError<T>> {
                let q = T::pool().mpsc.at(self.ix);
                if !q.rx_alive {
                    return Err(SendError(v));
                }
                if q.len >= QCAP {
                    nd::bound_exceeded("unbounded queue longer than the model holds");
                    return Err(SendError(v));
                }
                q.push(v);
                Ok(())
            }
        }

        pub struct SendFut<'a, T: Pooled> {
            s: &'a Sender<T>,
            v: Option<T>,
        }
        impl<'a, T: Pooled> Unpin for SendFut<'a, T> {}
        impl<'a, T: Pooled> Future for SendFut<'a, T> {
            type Output = Result<(), SendError<T>>;
            fn poll(mut self: Pin<&mut Self>, _cx: &mut Context<'_>) -> Poll<Self::Output> {
                let this = &mut *self;
                let q = T::pool().mpsc.at(this.s.ix);
                if !q.rx_alive {
                    return Poll::Ready(Err(SendError(this.v.take().unwrap())));
                }
                if q.len >= q.cap {
                    return Poll::Pending;
                }
                q.push(this.v.take().unwrap());
                Poll::Ready(Ok(()))
            }
        }

        impl<T: Pooled> Sender<T> {
            /// bounded async send (pends while full)
            pub fn send(&self, v: T) -> SendFut<'_, T> {
                SendFut { s: self, v: Some(v) }
            }
            pub fn blocking_send(&self, v: T) -> Result<(), SendError<T>> {
                sched::yield_point(Yield::BlockingSendBefore);
                {
                    let q = T::pool().mpsc.at(self.ix);
                    if !q.rx_alive {
                        return Err(SendError(v));
                    }
                    if q.len >= q.cap {
                        nd::bound_exceeded("blocking_send on a full queue");
                        return Err(SendError(v));
                    }
                    q.push(v);
                }
                sched::yield_point(Yield::BlockingSendAfter);
                Ok(())
            }
            pub fn is_closed(&self) -> bool {
                !T::pool().mpsc.at(self.ix).rx_alive
            }
        }

        impl<T: Pooled> Receiver<T> {
            pub fn recv(&mut self) -> RecvFut<'_, T> {
                RecvFut { r: self }
            }
            /// a parked thread is not simulated further: an empty queue ends the caller's
            /// `while let Some(..) = rx.blocking_recv()` loop (no xs code follows such loops)
            pub fn blocking_recv(&mut self) -> Option<T> {
                T::pool().mpsc.at(self.ix).pop()
            }
            pub fn try_recv(&mut self) -> Result<T, ()> {
                T::pool().mpsc.at(self.ix).pop().ok_or(())
            }
            /// harness-side: a handle on the (singleton) queue created by the real code
            pub fn model_attach(ix: usize) -> Receiver<T> {
                Receiver { ix, shadow: true, _p: PhantomData }
            }
            /// harness-side: a second handle on the same queue
            pub fn model_clone(&self) -> Receiver<T> {
                Receiver { ix: self.ix, shadow: true, _p: PhantomData }
            }
            /// harness-side: the consumer thread is parked, not gone (an inline-run worker loop
            /// returns when its queue is empty and drops its receiver; the real thread never does)
            pub fn model_reopen(&self) {
                T::pool().mpsc.at(self.ix).rx_alive = true;
            }
            pub fn model_senders(&self) -> usize {
                T::pool().mpsc.at(self.ix).senders
            }
            pub fn model_len(&self) -> usize {
                T::pool().mpsc.at(self.ix).len
            }
            /// every sender gone and nothing buffered
            pub fn model_closed(&self) -> bool {
                let q = T::pool().mpsc.at(self.ix);
                q.len == 0 && q.senders == 0
            }
            pub fn close(&mut self) {
                T::pool().mpsc.at(self.ix).rx_alive = false;
            }
        }
        pub struct RecvFut<'a, T: Pooled> {
            r: &'a mut Receiver<T>,
        }
        impl<'a, T: Pooled> Future for RecvFut<'a, T> {
            type Output = Option<T>;
            fn poll(self: Pin<&mut Self>, _cx: &mut Context<'_>) -> Poll<Option<T>> {
                let q = T::pool().mpsc.at(self.r.ix);
                if q.len > 0 {
                    return Poll::Ready(q.pop());
                }
                if q.senders == 0 {
                    return Poll::Ready(None);
                }
                Poll::Pending
            }
        }
    }

    pub mod oneshot {
        use super::super::*;
        pub struct Sender<T: Pooled> {
            ix: usize,
            _p: PhantomData<T>,
        }
        pub struct Receiver<T: Pooled> {
            ix: usize,
            _p: PhantomData<T>,
        }
        pub mod error {
            #[derive(Debug, PartialEq)]
            pub struct RecvError(pub ());
            impl core::fmt::Display for RecvError {
                fn fmt(&self, f: &mut core::fmt::Formatter<'_>) -> core::fmt::Result {
                    f.write_str("channel closed")
                }
            }
            impl std::error::Error for RecvError {}
        }
        pub fn channel<T: Pooled>() -> (Sender<T>, Receiver<T>) {
            let p = &mut T::pool().oneshot;
            let ix = p.alloc();
            let q = p.at(ix);
            q.rx_alive = true;
            q.tx_dropped = false;
            (Sender { ix, _p: PhantomData }, Receiver { ix, _p: PhantomData })
        }
        impl<T: Pooled> core::fmt::Debug for Sender<T> {
            fn fmt(&self, f: &mut core::fmt::Formatter<'_>) -> core::fmt::Result {
                f.write_str("oneshot::Sender")
            }
        }
        impl<T: Pooled> Sender<T> {
            pub fn send(self, v: T) -> Result<(), T> {
                let q = T::pool().oneshot.at(self.ix);
                if !q.rx_alive {
                    return Err(v);
                }
                q.push(v);
                Ok(())
            }
        }
        impl<T: Pooled> Drop for Sender<T> {
            fn drop(&mut self) {
                T::pool().oneshot.at(self.ix).tx_dropped = true;
            }
        }
        impl<T: Pooled> Drop for Receiver<T> {
            fn drop(&mut self) {
                T::pool().oneshot.at(self.ix).rx_alive = false;
            }
        }
        impl<T: Pooled> Future for Receiver<T> {
            type Output = Result<T, error::RecvError>;
            fn poll(self: Pin<&mut Self>, _cx: &mut Context<'_>) -> Poll<Self::Output> {
                let q = T::pool().oneshot.at(self.ix);
                if q.len > 0 {
                    return Poll::Ready(Ok(q.pop().unwrap()));
                }
                if q.tx_dropped {
                    return Poll::Ready(Err(error::RecvError(())));
                }
                Poll::Pending
            }
        }
    }

    pub mod broadcast {
        use super::super::*;
        pub const BCAP: usize = 4;
        pub struct Sender<T: Pooled> {
            ix: usize,
            _p: PhantomData<T>,
        }
        pub struct Receiver<T: Pooled> {
            ix: usize,
            next: u64,
            _p: PhantomData<T>,
        }
        pub mod error {
            #[derive(Debug, PartialEq, Clone)]
            pub enum RecvError {
                Closed,
                Lagged(u64),
            }
            #[derive(Debug)]
            pub struct SendError<T>(pub T);
        }
        /// capacity as requested, but at most BCAP (the model's ring); lag semantics are
        /// capacity-independent. xs's real 1024 is therefore modelled by BCAP.
        pub fn channel<T: Pooled + Clone>(cap: usize) -> (Sender<T>, Receiver<T>) {
            let p = &mut T::pool().bcast;
            let ix = p.alloc();
            let q = p.at(ix);
            q.cap = if cap < BCAP { cap } else { BCAP };
            q.tail = 0;
            q.receivers = 1;
            q.cursor = 0;
            (Sender { ix, _p: PhantomData }, Receiver { ix, next: 0, _p: PhantomData })
        }
        impl<T: Pooled> Clone for Sender<T> {
            fn clone(&self) -> Self {
                Sender { ix: self.ix, _p: PhantomData }
            }
        }
        impl<T: Pooled + Clone + BroadcastId> Sender<T> {
            pub fn send(&self, v: T) -> Result<usize, error::SendError<T>> {
                let id = v.bid();
                let q = T::pool().bcast.at(self.ix);
                if q.receivers == 0 {
                    // tokio: send with no receivers is an error and the value is dropped
                    trace::push(Ev::Broadcast { id });
                    sched::yield_point(Yield::BroadcastSent);
                    return Err(error::SendError(v));
                }
                let at = (q.tail % (q.cap as u64)) as usize;
                let mut item = Some(v);
                let mut i = 0;
                while i < BCAP {
                    if i == at {
                        core::mem::forget(core::mem::replace(&mut q.buf[i], item.take()));
                    }
                    i += 1;
                }
                q.tail += 1;
                let n = q.receivers;
                trace::push(Ev::Broadcast { id });
                sched::yield_point(Yield::BroadcastSent);
                Ok(n)
            }
            pub fn subscribe(&self) -> Receiver<T> {
                let q = T::pool().bcast.at(self.ix);
                if !crate::env::pool::is_multi() && q.receivers >= 1 {
                    nd::bound_exceeded("second live broadcast receiver in singleton mode");
                }
                q.receivers += 1;
                q.cursor = q.tail;
                Receiver { ix: self.ix, next: q.tail, _p: PhantomData }
            }
            pub fn receiver_count(&self) -> usize {
                T::pool().bcast.at(self.ix).receivers
            }
        }
        impl<T: Pooled> Drop for Receiver<T> {
            fn drop(&mut self) {
                let q = T::pool().bcast.at(self.ix);
                if q.receivers > 0 {
                    q.receivers -= 1;
                }
            }
        }
        /// what the effect monitor records about a broadcast payload
        pub trait BroadcastId {
            fn bid(&self) -> u128;
        }
        pub struct RecvFut<'a, T: Pooled> {
            r: &'a mut Receiver<T>,
        }
        impl<T: Pooled + Clone> Receiver<T> {
            pub fn recv(&mut self) -> RecvFut<'_, T> {
                RecvFut { r: self }
            }
            pub fn model_try_recv(&mut self) -> Option<Result<T, error::RecvError>> {
                // concrete budget of successful receives per harness: a receive loop whose guard CBMC
                // cannot fold would otherwise unwind to the global bound (no harness broadcasts more
                // than a handful of frames; exceeding the budget is a cut path, not a verdict)
                if crate::env::pool::budget_spent() {
                    nd::bound_exceeded("broadcast receive budget");
                    return None;
                }
                let multi = crate::env::pool::is_multi();
                let q = T::pool().bcast.at(self.ix);
                let cap = q.cap as u64;
                let next = if multi { self.next } else { q.cursor };
                if q.tail > next + cap {
                    let missed = q.tail - cap - next;
                    self.next = next + missed;
                    q.cursor = next + missed;
                    return Some(Err(error::RecvError::Lagged(missed)));
                }
                if next < q.tail {
                    let at = (next % cap) as usize;
                    let mut out = None;
                    let mut i = 0;
                    while i < BCAP {
                        if i == at {
                            out = q.buf[i].clone();
                        }
                        i += 1;
                    }
                    self.next = next + 1;
                    q.cursor = next + 1;
                    crate::env::pool::spend();
                    return out.map(Ok);
                }
                None
            }
        }
        impl<'a, T: Pooled + Clone> Future for RecvFut<'a, T> {
            type Output = Result<T, error::RecvError>;
            fn poll(self: Pin<&mut Self>, _cx: &mut Context<'_>) -> Poll<Self::Output> {
                let this = self.get_mut();
                match this.r.model_try_recv() {
                    Some(r) => Poll::Ready(r),
                    None => Poll::Pending,
                }
            }
        }
    }
}
