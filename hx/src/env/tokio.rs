//! Model of the tokio surface xs uses: array-backed channels with tokio's documented
//! semantics, `spawn` capturing the future in the scheduler's task table.
#![allow(dead_code)]
use super::nd;
use super::sched::{self, Yield};
use super::trace::{self, Ev};
use core::cell::RefCell;
use core::future::Future;
use core::pin::Pin;
use core::task::{Context, Poll};
use std::rc::Rc;

pub use ::tokio::io;

pub struct JoinHandle(pub usize);

pub fn spawn<F: Future<Output = ()> + 'static>(f: F) -> JoinHandle {
    JoinHandle(sched::spawn_future(Box::pin(f)))
}

pub mod task {
    pub use super::spawn;
}

pub mod time {
    use super::*;
    use core::time::Duration;
    /// one `Pending`, then ready: timers fire "eventually", the scheduler decides when
    pub struct Sleep {
        polled: bool,
    }
    pub fn sleep(_d: Duration) -> Sleep {
        Sleep { polled: false }
    }
    impl Future for Sleep {
        type Output = ();
        fn poll(mut self: Pin<&mut Self>, _cx: &mut Context<'_>) -> Poll<()> {
            if self.polled {
                Poll::Ready(())
            } else {
                self.polled = true;
                Poll::Pending
            }
        }
    }
}

pub mod sync {
    pub mod mpsc {
        use super::super::*;
        pub const QCAP: usize = 8;

        pub struct Chan<T> {
            buf: [Option<T>; QCAP],
            head: usize,
            len: usize,
            cap: usize,
            senders: usize,
            rx_alive: bool,
        }
        impl<T> Chan<T> {
            fn new(cap: usize) -> Self {
                Chan {
                    buf: [None, None, None, None, None, None, None, None],
                    head: 0,
                    len: 0,
                    cap,
                    senders: 1,
                    rx_alive: true,
                }
            }
            fn push(&mut self, v: T) {
                let i = (self.head + self.len) % QCAP;
                self.buf[i] = Some(v);
                self.len += 1;
            }
            fn pop(&mut self) -> Option<T> {
                if self.len == 0 {
                    return None;
                }
                let v = self.buf[self.head].take();
                self.head = (self.head + 1) % QCAP;
                self.len -= 1;
                v
            }
        }

        pub mod error {
            #[derive(Debug)]
            pub struct SendError<T>(pub T);
            impl<T> core::fmt::Display for SendError<T> {
                fn fmt(&self, f: &mut core::fmt::Formatter<'_>) -> core::fmt::Result {
                    f.write_str("channel closed")
                }
            }
            impl<T: core::fmt::Debug> std::error::Error for SendError<T> {}
        }
        pub use error::SendError;

        pub struct Sender<T> {
            ch: Rc<RefCell<Chan<T>>>,
        }
        pub struct Receiver<T> {
            ch: Rc<RefCell<Chan<T>>>,
        }
        pub struct UnboundedSender<T> {
            ch: Rc<RefCell<Chan<T>>>,
        }
        pub type UnboundedReceiver<T> = Receiver<T>;

        /// bounded channel; the model holds at most QCAP items whatever `cap` says
        /// (a producer that would need more is a cut path, see `blocking_send`).
        pub fn channel<T>(cap: usize) -> (Sender<T>, Receiver<T>) {
            let ch = Rc::new(RefCell::new(Chan::new(if cap < QCAP { cap } else { QCAP })));
            (Sender { ch: ch.clone() }, Receiver { ch })
        }
        pub fn unbounded_channel<T>() -> (UnboundedSender<T>, Receiver<T>) {
            let ch = Rc::new(RefCell::new(Chan::new(QCAP)));
            (UnboundedSender { ch: ch.clone() }, Receiver { ch })
        }
        impl<T> Clone for UnboundedSender<T> {
            fn clone(&self) -> Self {
                self.ch.borrow_mut().senders += 1;
                UnboundedSender { ch: self.ch.clone() }
            }
        }
        impl<T> Drop for UnboundedSender<T> {
            fn drop(&mut self) {
                self.ch.borrow_mut().senders -= 1;
            }
        }
        impl<T> UnboundedSender<T> {
            pub fn send(&self, v: T) -> Result<(), SendError<T>> {
                let mut ch = self.ch.borrow_mut();
                if !ch.rx_alive {
                    return Err(SendError(v));
                }
                if ch.len >= QCAP {
                    drop(ch);
                    nd::bound_exceeded("unbounded queue longer than the model holds");
                    return Err(SendError(v));
                }
                ch.push(v);
                Ok(())
            }
        }

        impl<T> Clone for Sender<T> {
            fn clone(&self) -> Self {
                self.ch.borrow_mut().senders += 1;
                Sender { ch: self.ch.clone() }
            }
        }
        impl<T> Drop for Sender<T> {
            fn drop(&mut self) {
                self.ch.borrow_mut().senders -= 1;
            }
        }
        impl<T> Drop for Receiver<T> {
            fn drop(&mut self) {
                // a model_clone'd receiver shares the queue: only the last one closes it
                if Rc::strong_count(&self.ch) <= 1 + self.ch.borrow().senders {
                    self.ch.borrow_mut().rx_alive = false;
                }
            }
        }

        pub struct SendFut<'a, T> {
            s: &'a Sender<T>,
            v: Option<T>,
        }
        impl<'a, T> Unpin for SendFut<'a, T> {}
        impl<'a, T> Future for SendFut<'a, T> {
            type Output = Result<(), SendError<T>>;
            fn poll(mut self: Pin<&mut Self>, _cx: &mut Context<'_>) -> Poll<Self::Output> {
                let this = &mut *self;
                let mut ch = this.s.ch.borrow_mut();
                if !ch.rx_alive {
                    return Poll::Ready(Err(SendError(this.v.take().unwrap())));
                }
                if ch.len >= ch.cap {
                    return Poll::Pending;
                }
                ch.push(this.v.take().unwrap());
                Poll::Ready(Ok(()))
            }
        }

        impl<T> Sender<T> {
            /// bounded async send (pends while full)
            pub fn send(&self, v: T) -> SendFut<'_, T> {
                SendFut { s: self, v: Some(v) }
            }
            pub fn blocking_send(&self, v: T) -> Result<(), SendError<T>> {
                sched::yield_point(Yield::BlockingSendBefore);
                {
                    let mut ch = self.ch.borrow_mut();
                    if !ch.rx_alive {
                        return Err(SendError(v));
                    }
                    if ch.len >= ch.cap {
                        drop(ch);
                        nd::bound_exceeded("blocking_send on a full queue");
                        return Err(SendError(v));
                    }
                    ch.push(v);
                }
                sched::yield_point(Yield::BlockingSendAfter);
                Ok(())
            }
            pub fn is_closed(&self) -> bool {
                !self.ch.borrow().rx_alive
            }
        }
        impl<T> Receiver<T> {
            pub fn recv(&mut self) -> RecvFut<'_, T> {
                RecvFut { r: self }
            }
            /// a parked thread is not simulated further: an empty queue ends the caller's
            /// `while let Some(..) = rx.blocking_recv()` loop (no xs code follows such loops)
            pub fn blocking_recv(&mut self) -> Option<T> {
                self.ch.borrow_mut().pop()
            }
            pub fn try_recv(&mut self) -> Result<T, ()> {
                self.ch.borrow_mut().pop().ok_or(())
            }
            /// harness-side: a second handle on the same queue
            pub fn model_clone(&self) -> Receiver<T> {
                Receiver { ch: self.ch.clone() }
            }
            pub fn model_len(&self) -> usize {
                self.ch.borrow().len
            }
            pub fn model_closed(&self) -> bool {
                let ch = self.ch.borrow();
                ch.len == 0 && ch.senders == 0
            }
            pub fn close(&mut self) {
                self.ch.borrow_mut().rx_alive = false;
            }
        }
        pub struct RecvFut<'a, T> {
            r: &'a mut Receiver<T>,
        }
        impl<'a, T> Future for RecvFut<'a, T> {
            type Output = Option<T>;
            fn poll(self: Pin<&mut Self>, _cx: &mut Context<'_>) -> Poll<Option<T>> {
                let mut ch = self.r.ch.borrow_mut();
                if let Some(v) = ch.pop() {
                    return Poll::Ready(Some(v));
                }
                if ch.senders == 0 {
                    return Poll::Ready(None);
                }
                Poll::Pending
            }
        }
    }

    pub mod oneshot {
        use super::super::*;
        pub struct Inner<T> {
            v: Option<T>,
            tx_dropped: bool,
            rx_dropped: bool,
        }
        pub struct Sender<T> {
            ch: Rc<RefCell<Inner<T>>>,
        }
        pub struct Receiver<T> {
            ch: Rc<RefCell<Inner<T>>>,
        }
        pub mod error {
            #[derive(Debug, PartialEq)]
            pub struct RecvError(pub ());
            impl core::fmt::Display for RecvError {
                fn fmt(&self, f: &mut core::fmt::Formatter<'_>) -> core::fmt::Result {
                    f.write_str("channel closed")
                }
            }
            impl std::error::Error for RecvError {}
        }
        pub fn channel<T>() -> (Sender<T>, Receiver<T>) {
            let ch = Rc::new(RefCell::new(Inner { v: None, tx_dropped: false, rx_dropped: false }));
            (Sender { ch: ch.clone() }, Receiver { ch })
        }
        impl<T> core::fmt::Debug for Sender<T> {
            fn fmt(&self, f: &mut core::fmt::Formatter<'_>) -> core::fmt::Result {
                f.write_str("oneshot::Sender")
            }
        }
        impl<T> Sender<T> {
            pub fn send(self, v: T) -> Result<(), T> {
                let mut ch = self.ch.borrow_mut();
                if ch.rx_dropped {
                    return Err(v);
                }
                ch.v = Some(v);
                Ok(())
            }
        }
        impl<T> Drop for Sender<T> {
            fn drop(&mut self) {
                self.ch.borrow_mut().tx_dropped = true;
            }
        }
        impl<T> Drop for Receiver<T> {
            fn drop(&mut self) {
                self.ch.borrow_mut().rx_dropped = true;
            }
        }
        impl<T> Future for Receiver<T> {
            type Output = Result<T, error::RecvError>;
            fn poll(self: Pin<&mut Self>, _cx: &mut Context<'_>) -> Poll<Self::Output> {
                let mut ch = self.ch.borrow_mut();
                if let Some(v) = ch.v.take() {
                    return Poll::Ready(Ok(v));
                }
                if ch.tx_dropped {
                    return Poll::Ready(Err(error::RecvError(())));
                }
                Poll::Pending
            }
        }
    }

    pub mod broadcast {
        use super::super::*;
        pub const BCAP: usize = 4;
        pub struct Inner<T> {
            buf: [Option<T>; BCAP],
            cap: usize,
            /// total number of messages ever sent
            tail: u64,
            receivers: usize,
        }
        pub struct Sender<T> {
            ch: Rc<RefCell<Inner<T>>>,
        }
        pub struct Receiver<T> {
            ch: Rc<RefCell<Inner<T>>>,
            next: u64,
        }
        pub mod error {
            #[derive(Debug, PartialEq, Clone)]
            pub enum RecvError {
                Closed,
                Lagged(u64),
            }
            #[derive(Debug)]
            pub struct SendError<T>(pub T);
        }
        /// capacity as requested, but at most BCAP (the model's ring); lag semantics are
        /// capacity-independent. xs's real 1024 is therefore modelled by BCAP.
        pub fn channel<T: Clone>(cap: usize) -> (Sender<T>, Receiver<T>) {
            let cap = if cap < BCAP { cap } else { BCAP };
            let ch = Rc::new(RefCell::new(Inner {
                buf: [None, None, None, None],
                cap,
                tail: 0,
                receivers: 1,
            }));
            (Sender { ch: ch.clone() }, Receiver { ch, next: 0 })
        }
        impl<T> Clone for Sender<T> {
            fn clone(&self) -> Self {
                Sender { ch: self.ch.clone() }
            }
        }
        impl<T: Clone + BroadcastId> Sender<T> {
            pub fn send(&self, v: T) -> Result<usize, error::SendError<T>> {
                let id = v.bid();
                let n;
                {
                    let mut ch = self.ch.borrow_mut();
                    if ch.receivers == 0 {
                        // tokio: send with no receivers is an error and the value is dropped
                        drop(ch);
                        trace::push(Ev::Broadcast { id });
                        sched::yield_point(Yield::BroadcastSent);
                        return Err(error::SendError(v));
                    }
                    let i = (ch.tail % (ch.cap as u64)) as usize;
                    ch.buf[i] = Some(v);
                    ch.tail += 1;
                    n = ch.receivers;
                }
                trace::push(Ev::Broadcast { id });
                sched::yield_point(Yield::BroadcastSent);
                Ok(n)
            }
            pub fn subscribe(&self) -> Receiver<T> {
                let mut ch = self.ch.borrow_mut();
                ch.receivers += 1;
                Receiver { ch: self.ch.clone(), next: ch.tail }
            }
            pub fn receiver_count(&self) -> usize {
                self.ch.borrow().receivers
            }
        }
        impl<T> Drop for Receiver<T> {
            fn drop(&mut self) {
                self.ch.borrow_mut().receivers -= 1;
            }
        }
        /// what the effect trace records about a broadcast payload
        pub trait BroadcastId {
            fn bid(&self) -> u128;
        }
        pub struct RecvFut<'a, T> {
            r: &'a mut Receiver<T>,
        }
        impl<T: Clone> Receiver<T> {
            pub fn recv(&mut self) -> RecvFut<'_, T> {
                RecvFut { r: self }
            }
            pub fn model_try_recv(&mut self) -> Option<Result<T, error::RecvError>> {
                let ch = self.ch.borrow();
                let cap = ch.cap as u64;
                if ch.tail > self.next + cap {
                    let missed = ch.tail - cap - self.next;
                    drop(ch);
                    self.next += missed;
                    return Some(Err(error::RecvError::Lagged(missed)));
                }
                if self.next < ch.tail {
                    let i = (self.next % cap) as usize;
                    let v = ch.buf[i].clone();
                    drop(ch);
                    self.next += 1;
                    return Some(Ok(v.unwrap()));
                }
                None
            }
        }
        impl<'a, T: Clone> Future for RecvFut<'a, T> {
            type Output = Result<T, error::RecvError>;
            fn poll(self: Pin<&mut Self>, _cx: &mut Context<'_>) -> Poll<Self::Output> {
                let this = self.get_mut();
                match this.r.model_try_recv() {
                    Some(r) => Poll::Ready(r),
                    None => Poll::Pending,
                }
            }
        }
    }
}
