//! Cooperative scheduler: `std::thread::spawn` and `tokio::spawn` capture the closure /
//! future in a task table; the harness decides when each runs. Environment-boundary calls
//! are yield points at which the harness may run another actor's action nested in the call.
use core::future::Future;
use core::pin::Pin;
use core::task::{Context, Poll, RawWaker, RawWakerVTable, Waker};

/// Task table. Closures and futures sit in two separate typed arrays of `Option<Box<dyn ..>>`
/// (null-pointer niche, no payload-carrying enum): a fat pointer stored inside an enum payload is
/// byte-punned by CBMC, becomes opaque, and with it everything the closure captured (probe
/// pz_direct: a captured constant loop bound unwound to the global bound).
pub const NTASK: usize = 8;
pub const K_EMPTY: u8 = 0;
pub const K_THREAD: u8 = 1;
pub const K_FUT: u8 = 2;
pub const K_DONE: u8 = 3;
pub static mut KIND: [u8; NTASK] = [K_EMPTY; NTASK];
/// raw fat pointers (Copy): reading them out of the static is a plain load; `Option::take` /
/// `mem::replace` on a `Box<dyn ..>` go through a memcpy intrinsic and make the pointer opaque
pub static mut THREADS: [Option<*mut (dyn FnOnce() + 'static)>; NTASK] = [None; NTASK];
pub static mut FUTS: [Option<*mut (dyn Future<Output = ()> + 'static)>; NTASK] = [None; NTASK];
pub static mut NTASKS: usize = 0;

#[derive(Clone, Copy, PartialEq, Debug)]
pub enum Yield {
    IdAssigned,
    Committed,
    Persisted,
    BroadcastSent,
    BlockingSendBefore,
    BlockingSendAfter,
    GcSent,
}
pub static mut YIELD_HOOK: Option<fn(Yield)> = None;

/// INLINE mode (inversion of control). A pointer *into* a heap object (a `&self` of something a
/// boxed closure or future captured) is opaque to CBMC - probe pt_i: `opt_m(&opts)` inside a boxed
/// closure lost a constant that direct field access kept - and the real code passes such
/// references everywhere (`store.iter_frames(..)` on the captured Store). So instead of boxing:
///  * `std::thread::spawn(f)` runs `THREAD_PRE`, then `f()` on the spawner's stack, then
///    `THREAD_POST` (legal schedule: the thread runs to completion at once; other actors still
///    interleave at its yield points);
///  * `tokio::spawn(fut)` pins `fut` on the spawner's stack and hands `Pin<&mut dyn Future>` to
///    `TASK_HOOK`, which drives the rest of the scenario (polls, appends, consumer) before
///    returning; the task is dropped when the hook returns.
pub static mut INLINE: bool = false;
pub static mut THREAD_PRE: Option<fn()> = None;
pub static mut THREAD_POST: Option<fn()> = None;
pub static mut TASK_HOOK: Option<fn(Pin<&mut dyn Future<Output = ()>>)> = None;
/// Driver protocol (preferred over TASK_HOOK): `tokio::spawn<F>` polls its own, statically typed,
/// stack-pinned future; before each poll it asks `TASK_DRIVER(step, done)` - which performs the
/// harness's in-between actions - whether to poll again (true) or to return (false). No `dyn
/// Future` is involved: with two spawned async blocks in the program a `dyn` poll makes CBMC
/// explore BOTH bodies on the same state (observed: the live task's receive loop unwound to the
/// global bound).
pub static mut TASK_DRIVER: Option<fn(u32, bool) -> bool> = None;
pub fn set_inline(b: bool) {
    unsafe { INLINE = b }
}
pub fn inline() -> bool {
    unsafe { INLINE }
}
static mut IN_HOOK: bool = false;

#[allow(static_mut_refs)]
pub fn reset() {
    unsafe {
        let mut i = 0;
        while i < NTASK {
            KIND[i] = K_EMPTY;
            THREADS[i] = None;
            FUTS[i] = None; // (native: leaks the boxes of a previous scenario, deliberately)
            i += 1;
        }
        NTASKS = 0;
        YIELD_HOOK = None;
        IN_HOOK = false;
        INLINE = false;
        THREAD_PRE = None;
        THREAD_POST = None;
        TASK_HOOK = None;
        TASK_DRIVER = None;
    }
}

/// Called by the environment model at boundary calls. Nested yields (from an action run
/// inside the hook) are not expanded again: interleavings are "one action nested in a gap".
#[allow(static_mut_refs)]
pub fn yield_point(y: Yield) {
    unsafe {
        if IN_HOOK {
            return;
        }
        if let Some(h) = YIELD_HOOK {
            IN_HOOK = true;
            h(y);
            IN_HOOK = false;
        }
    }
}

#[allow(static_mut_refs)]
fn slot(kind: u8) -> usize {
    unsafe {
        if NTASKS >= NTASK {
            super::nd::bound_exceeded("task table");
            return 0;
        }
        let i = NTASKS;
        KIND[i] = kind;
        NTASKS += 1;
        i
    }
}
#[allow(static_mut_refs)]
pub fn spawn_thread(f: Box<dyn FnOnce()>) -> usize {
    let i = slot(K_THREAD);
    unsafe { THREADS[i] = Some(Box::into_raw(f)) };
    i
}
#[allow(static_mut_refs)]
pub fn spawn_future(f: Pin<Box<dyn Future<Output = ()>>>) -> usize {
    let i = slot(K_FUT);
    unsafe { FUTS[i] = Some(Box::into_raw(Pin::into_inner_unchecked(f))) };
    i
}
#[allow(static_mut_refs)]
pub fn ntasks() -> usize {
    unsafe { NTASKS }
}
pub fn is_thread(i: usize) -> bool {
    unsafe { KIND[i] == K_THREAD }
}
pub fn is_future(i: usize) -> bool {
    unsafe { KIND[i] == K_FUT }
}
pub fn is_done(i: usize) -> bool {
    unsafe { KIND[i] == K_DONE }
}

/// Run captured thread `i` to completion (its yield points may nest other actions).
#[allow(static_mut_refs)]
pub fn run_thread(i: usize) -> bool {
    unsafe {
        if KIND[i] != K_THREAD {
            return false;
        }
        KIND[i] = K_DONE;
        match THREADS[i] {
            Some(p) => {
                THREADS[i] = None;
                let f: Box<dyn FnOnce()> = Box::from_raw(p);
                f();
                true
            }
            None => false,
        }
    }
}

fn noop_raw() -> RawWaker {
    fn clone(_: *const ()) -> RawWaker {
        noop_raw()
    }
    fn noop(_: *const ()) {}
    static VT: RawWakerVTable = RawWakerVTable::new(clone, noop, noop, noop);
    RawWaker::new(core::ptr::null(), &VT)
}
pub fn noop_waker() -> Waker {
    unsafe { Waker::from_raw(noop_raw()) }
}

/// Poll captured task `i` once. Returns true when it completed (the future is dropped, so
/// channel endpoints it owned are released).
#[allow(static_mut_refs)]
pub fn poll_task(i: usize) -> bool {
    unsafe {
        if KIND[i] != K_FUT {
            return false;
        }
        let w = noop_waker();
        let mut cx = Context::from_waker(&w);
        let ready = match FUTS[i] {
            Some(p) => matches!(Pin::new_unchecked(&mut *p).poll(&mut cx), Poll::Ready(())),
            None => false,
        };
        if ready {
            KIND[i] = K_DONE;
            if let Some(p) = FUTS[i] {
                FUTS[i] = None;
                drop(Box::from_raw(p));
            }
        }
        ready
    }
}

/// Poll a future once on the caller's stack; `None` when pending.
pub fn poll_once<F: Future>(f: Pin<&mut F>) -> Option<F::Output> {
    let w = noop_waker();
    let mut cx = Context::from_waker(&w);
    match f.poll(&mut cx) {
        Poll::Ready(v) => Some(v),
        Poll::Pending => None,
    }
}

/// Drive a future that is expected to complete without waiting on anything external.
/// The future is pinned on the STACK: a generator on the heap is opaque to CBMC's constant
/// propagation (probe px_future: a captured constant loop bound unwound to the global bound,
/// stack-pinned: exactly), and `Store::read` is an `async fn` whose whole body is such a future.
pub fn block_on_ready<F: Future>(f: F) -> F::Output {
    let mut f = f;
    // SAFETY: pinned in place, never moved again (a `pin!` move of a large generator is a memcpy)
    let mut f = unsafe { Pin::new_unchecked(&mut f) };
    let mut n = 0;
    loop {
        if let Some(v) = poll_once(f.as_mut()) {
            return v;
        }
        n += 1;
        if n >= 4 {
            super::nd::bound_exceeded("block_on_ready: future still pending");
            panic!("block_on_ready: pending");
        }
    }
}

/// poll a (stack-pinned) task once
pub fn poll_dyn(f: &mut Pin<&mut dyn Future<Output = ()>>) -> bool {
    let w = noop_waker();
    let mut cx = Context::from_waker(&w);
    matches!(f.as_mut().poll(&mut cx), Poll::Ready(()))
}
