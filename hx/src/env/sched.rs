//! Cooperative scheduler: `std::thread::spawn` and `tokio::spawn` capture the closure /
//! future in a task table; the harness decides when each runs. Environment-boundary calls
//! are yield points at which the harness may run another actor's action nested in the call.
use core::future::Future;
use core::pin::Pin;
use core::task::{Context, Poll, RawWaker, RawWakerVTable, Waker};

pub enum Task {
    Empty,
    Thread(Box<dyn FnOnce()>),
    Fut(Pin<Box<dyn Future<Output = ()>>>),
    Done,
}

pub const NTASK: usize = 8;
pub static mut TASKS: [Task; NTASK] = [
    Task::Empty,
    Task::Empty,
    Task::Empty,
    Task::Empty,
    Task::Empty,
    Task::Empty,
    Task::Empty,
    Task::Empty,
];
pub static mut NTASKS: usize = 0;

#[derive(Clone, Copy, PartialEq, Debug)]
pub enum Yield {
    IdAssigned,
    Committed,
    Persisted,
    BroadcastSent,
    BlockingSendBefore,
    BlockingSendAfter,
    GcSent,
}
pub static mut YIELD_HOOK: Option<fn(Yield)> = None;
static mut IN_HOOK: bool = false;

#[allow(static_mut_refs)]
pub fn reset() {
    unsafe {
        let mut i = 0;
        while i < NTASK {
            TASKS[i] = Task::Empty;
            i += 1;
        }
        NTASKS = 0;
        YIELD_HOOK = None;
        IN_HOOK = false;
    }
}

/// Called by the environment model at boundary calls. Nested yields (from an action run
/// inside the hook) are not expanded again: interleavings are "one action nested in a gap".
#[allow(static_mut_refs)]
pub fn yield_point(y: Yield) {
    unsafe {
        if IN_HOOK {
            return;
        }
        if let Some(h) = YIELD_HOOK {
            IN_HOOK = true;
            h(y);
            IN_HOOK = false;
        }
    }
}

#[allow(static_mut_refs)]
fn add(t: Task) -> usize {
    unsafe {
        if NTASKS >= NTASK {
            super::nd::bound_exceeded("task table");
            return 0;
        }
        let i = NTASKS;
        TASKS[i] = t;
        NTASKS += 1;
        i
    }
}
pub fn spawn_thread(f: Box<dyn FnOnce()>) -> usize {
    add(Task::Thread(f))
}
pub fn spawn_future(f: Pin<Box<dyn Future<Output = ()>>>) -> usize {
    add(Task::Fut(f))
}
#[allow(static_mut_refs)]
pub fn ntasks() -> usize {
    unsafe { NTASKS }
}
#[allow(static_mut_refs)]
pub fn is_thread(i: usize) -> bool {
    unsafe { matches!(TASKS[i], Task::Thread(_)) }
}
#[allow(static_mut_refs)]
pub fn is_future(i: usize) -> bool {
    unsafe { matches!(TASKS[i], Task::Fut(_)) }
}
#[allow(static_mut_refs)]
pub fn is_done(i: usize) -> bool {
    unsafe { matches!(TASKS[i], Task::Done) }
}

/// Run captured thread `i` to completion (its yield points may nest other actions).
#[allow(static_mut_refs)]
pub fn run_thread(i: usize) -> bool {
    unsafe {
        let t = core::mem::replace(&mut TASKS[i], Task::Done);
        match t {
            Task::Thread(f) => {
                f();
                true
            }
            other => {
                TASKS[i] = other;
                false
            }
        }
    }
}

fn noop_raw() -> RawWaker {
    fn clone(_: *const ()) -> RawWaker {
        noop_raw()
    }
    fn noop(_: *const ()) {}
    static VT: RawWakerVTable = RawWakerVTable::new(clone, noop, noop, noop);
    RawWaker::new(core::ptr::null(), &VT)
}
pub fn noop_waker() -> Waker {
    unsafe { Waker::from_raw(noop_raw()) }
}

/// Poll captured task `i` once. Returns true when it completed (the future is dropped, so
/// channel endpoints it owned are released).
#[allow(static_mut_refs)]
pub fn poll_task(i: usize) -> bool {
    unsafe {
        let t = core::mem::replace(&mut TASKS[i], Task::Done);
        match t {
            Task::Fut(mut f) => {
                let w = noop_waker();
                let mut cx = Context::from_waker(&w);
                match f.as_mut().poll(&mut cx) {
                    Poll::Ready(()) => {
                        drop(f);
                        true
                    }
                    Poll::Pending => {
                        TASKS[i] = Task::Fut(f);
                        false
                    }
                }
            }
            other => {
                TASKS[i] = other;
                false
            }
        }
    }
}

/// Poll a future once on the caller's stack; `None` when pending.
pub fn poll_once<F: Future>(f: Pin<&mut F>) -> Option<F::Output> {
    let w = noop_waker();
    let mut cx = Context::from_waker(&w);
    match f.poll(&mut cx) {
        Poll::Ready(v) => Some(v),
        Poll::Pending => None,
    }
}

/// Drive a future that is expected to complete without waiting on anything external.
pub fn block_on_ready<F: Future>(f: F) -> F::Output {
    let mut f = Box::pin(f);
    let mut n = 0;
    loop {
        if let Some(v) = poll_once(f.as_mut()) {
            return v;
        }
        n += 1;
        if n >= 4 {
            super::nd::bound_exceeded("block_on_ready: future still pending");
            panic!("block_on_ready: pending");
        }
    }
}
