//! Nondeterminism, assumptions, checks, covers.
//! Under Kani these are solver variables / assertions; natively the values come from a
//! replay script (the byte vectors of Kani's concrete playback, consumed in call order),
//! so the very same scenario function can be re-run on a counterexample.

#[cfg(not(kani))]
pub mod native {
    pub struct AssumeFailed;
    pub static mut SCRIPT: Vec<Vec<u8>> = Vec::new();
    pub static mut POS: usize = 0;
    pub static mut EXHAUSTED: bool = false;
    pub static mut FAILS: Vec<&'static str> = Vec::new();
    pub static mut COVERS: Vec<&'static str> = Vec::new();
    pub static mut ASSUME_FAILED: bool = false;
    pub static mut TAGS: Vec<String> = Vec::new();

    #[allow(static_mut_refs)]
    pub fn load(script: Vec<Vec<u8>>) {
        unsafe {
            SCRIPT = script;
            POS = 0;
            EXHAUSTED = false;
            FAILS.clear();
            COVERS.clear();
            ASSUME_FAILED = false;
            TAGS.clear();
        }
    }
    #[allow(static_mut_refs)]
    pub fn tags() -> Vec<String> {
        unsafe { TAGS.clone() }
    }
    #[allow(static_mut_refs)]
    pub fn pop(n: usize) -> Vec<u8> {
        unsafe {
            if POS < SCRIPT.len() {
                let mut v = SCRIPT[POS].clone();
                POS += 1;
                v.resize(n, 0);
                v
            } else {
                EXHAUSTED = true;
                vec![0; n]
            }
        }
    }
    #[allow(static_mut_refs)]
    pub fn fails() -> Vec<&'static str> {
        unsafe { FAILS.clone() }
    }
    #[allow(static_mut_refs)]
    pub fn covers() -> Vec<&'static str> {
        unsafe { COVERS.clone() }
    }
    pub fn assume_failed() -> bool {
        unsafe { ASSUME_FAILED }
    }
}

macro_rules! any_fn {
    ($name:ident, $t:ty, $n:expr) => {
        #[cfg(kani)]
        #[inline(never)]
        pub fn $name() -> $t {
            kani::any()
        }
        #[cfg(not(kani))]
        pub fn $name() -> $t {
            let v = native::pop($n);
            let mut a = [0u8; $n];
            a.copy_from_slice(&v);
            <$t>::from_le_bytes(a)
        }
    };
}
any_fn!(any_u8, u8, 1);
any_fn!(any_u16, u16, 2);
any_fn!(any_u32, u32, 4);
any_fn!(any_u64, u64, 8);
any_fn!(any_u128, u128, 16);
any_fn!(any_usize, usize, 8);

#[cfg(kani)]
pub fn any_bool() -> bool {
    kani::any()
}
#[cfg(not(kani))]
pub fn any_bool() -> bool {
    native::pop(1)[0] & 1 == 1
}

/// value in 0..n (n >= 1)
pub fn any_below(n: u8) -> u8 {
    let v = any_u8();
    assume(v < n);
    v
}

#[cfg(kani)]
pub fn assume(c: bool) {
    kani::assume(c)
}
#[cfg(not(kani))]
#[allow(static_mut_refs)]
pub fn assume(c: bool) {
    if !c {
        unsafe { native::ASSUME_FAILED = true };
        // kani would cut the path here: unwind out of the scenario
        std::panic::panic_any(native::AssumeFailed);
    }
}

#[cfg(not(kani))]
#[allow(static_mut_refs)]
pub fn native_check(c: bool, m: &'static str) {
    // failures after a violated assumption are meaningless (kani would have cut the path)
    if !c && !native::assume_failed() {
        unsafe { native::FAILS.push(m) };
    }
}
#[cfg(not(kani))]
#[allow(static_mut_refs)]
pub fn native_cover(c: bool, m: &'static str) {
    if c && !native::assume_failed() {
        unsafe { native::COVERS.push(m) };
    }
}

/// A modelling bound was exceeded (queue full, partition slots exhausted, ...):
/// the path is cut, never reported as a property violation.
#[cfg(kani)]
pub fn bound_exceeded(_what: &'static str) {
    kani::assume(false);
}
#[cfg(not(kani))]
pub fn bound_exceeded(what: &'static str) {
    assume(false);
    let _ = what;
}

#[macro_export]
macro_rules! hx_check {
    ($c:expr, $m:literal) => {{
        let __c: bool = $c;
        #[cfg(kani)]
        {
            kani::assert(__c, $m);
        }
        #[cfg(not(kani))]
        {
            $crate::env::nd::native_check(__c, $m);
        }
    }};
}
#[macro_export]
macro_rules! hx_cover {
    ($c:expr, $m:literal) => {{
        let __c: bool = $c;
        #[cfg(kani)]
        {
            kani::cover!(__c, $m);
        }
        #[cfg(not(kani))]
        {
            $crate::env::nd::native_cover(__c, $m);
        }
    }};
}

/// native-only: describe the shape of the case being run (used to key known findings)
#[cfg(not(kani))]
#[allow(static_mut_refs)]
pub fn tag(s: &str) {
    unsafe { native::TAGS.push(s.to_string()) }
}
#[cfg(kani)]
#[inline(always)]
pub fn tag(_s: &str) {}
