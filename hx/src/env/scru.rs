//! `scru128::new()` is environment: a strictly increasing id whose 48-bit timestamp field
//! equals the model clock (scru128's documented monotonic-generator guarantee).
pub use ::scru128::{ParseError, Scru128Id};
use super::sched::{self, Yield};
use super::trace::{self, Ev};

pub static mut SEQ: u32 = 0;
/// when set, the next call to `new()` returns exactly this id (harness-chosen, e.g. symbolic)
pub static mut FORCED: Option<u128> = None;
pub static mut LAST: u128 = 0;

pub fn reset() {
    unsafe {
        SEQ = 0;
        FORCED = None;
        LAST = 0;
    }
}
pub fn force_next(id: u128) {
    unsafe { FORCED = Some(id) }
}
pub fn last() -> u128 {
    unsafe { LAST }
}

pub fn new() -> Scru128Id {
    let v = unsafe {
        match FORCED.take() {
            Some(v) => v,
            None => {
                SEQ += 1;
                let ts = super::stdm::time::clock() & 0xFFFF_FFFF_FFFF;
                ((ts as u128) << 80) | ((SEQ as u128) << 32)
            }
        }
    };
    unsafe { LAST = v };
    trace::push(Ev::IdAssigned { id: v });
    let id = Scru128Id::from_u128(v);
    sched::yield_point(Yield::IdAssigned);
    id
}

/// `Scru128Generator`: an independent generator instance. Its documented guarantee is
/// monotonicity *per instance*; two instances only agree on the millisecond timestamp. The model
/// gives each instance its own counter, so ids drawn from different instances within the same
/// model-clock millisecond are NOT ordered - exactly the freedom the real type has.
pub struct Scru128Generator {
    seq: u32,
}
impl Scru128Generator {
    pub fn new() -> Self {
        Scru128Generator { seq: 0 }
    }
    pub fn generate(&mut self) -> Scru128Id {
        self.seq += 1;
        let ts = super::stdm::time::clock() & 0xFFFF_FFFF_FFFF;
        let v = ((ts as u128) << 80) | ((self.seq as u128) << 32);
        trace::push(Ev::IdAssigned { id: v });
        let id = Scru128Id::from_u128(v);
        sched::yield_point(Yield::IdAssigned);
        id
    }
}
impl Default for Scru128Generator {
    fn default() -> Self {
        Self::new()
    }
}
