//! `scru128::new()` is environment: a strictly increasing id whose 48-bit timestamp field
//! equals the model clock (scru128's documented monotonic-generator guarantee).
pub use ::scru128::{ParseError, Scru128Id};
use super::sched::{self, Yield};
use super::trace::{self, Ev};

pub static mut SEQ: u32 = 0;
/// when set, the next call to `new()` returns exactly this id (harness-chosen, e.g. symbolic)
pub static mut FORCED: Option<u128> = None;
pub static mut LAST: u128 = 0;

pub fn reset() {
    unsafe {
        SEQ = 0;
        FORCED = None;
        LAST = 0;
    }
}
pub fn force_next(id: u128) {
    unsafe { FORCED = Some(id) }
}
pub fn last() -> u128 {
    unsafe { LAST }
}

pub fn new() -> Scru128Id {
    let v = unsafe {
        match FORCED.take() {
            Some(v) => v,
            None => {
                SEQ += 1;
                let ts = super::stdm::time::clock() & 0xFFFF_FFFF_FFFF;
                ((ts as u128) << 80) | ((SEQ as u128) << 32)
            }
        }
    };
    unsafe { LAST = v };
    trace::push(Ev::IdAssigned { id: v });
    let id = Scru128Id::from_u128(v);
    sched::yield_point(Yield::IdAssigned);
    id
}
