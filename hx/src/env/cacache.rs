//! Model of the cacache surface xs uses: an in-memory content table keyed by an opaque
//! integrity token; write-then-read returns the bytes; equal bytes give equal tokens.
//! Hashing, files, fsync are NOT modelled (C10 is not claimed).
use super::ssri::Integrity;
use super::trace::{self, Ev};
use std::path::Path;

#[derive(Debug)]
pub enum Error {
    EntryNotFound,
}
impl core::fmt::Display for Error {
    fn fmt(&self, f: &mut core::fmt::Formatter<'_>) -> core::fmt::Result {
        f.write_str("cacache model error")
    }
}
impl std::error::Error for Error {}
pub type Result<T> = core::result::Result<T, Error>;

pub const CCAP: usize = 8;
pub static mut CONTENT: [Option<Vec<u8>>; CCAP] = [None, None, None, None, None, None, None, None];
pub static mut CN: usize = 0;

#[allow(static_mut_refs)]
pub fn reset() {
    unsafe {
        let mut i = 0;
        while i < CCAP {
            CONTENT[i] = None;
            i += 1;
        }
        CN = 0;
    }
}
#[allow(static_mut_refs)]
fn put(bytes: &[u8]) -> Integrity {
    unsafe {
        let mut i = 0;
        while i < CN {
            if let Some(c) = &CONTENT[i] {
                if c.as_slice() == bytes {
                    trace::push(Ev::CasWrite);
                    return Integrity { token: i as u32 };
                }
            }
            i += 1;
        }
        if CN >= CCAP {
            super::nd::bound_exceeded("cas content table");
            return Integrity { token: 0 };
        }
        CONTENT[CN] = Some(bytes.to_vec());
        CN += 1;
        trace::push(Ev::CasWrite);
        Integrity { token: (CN - 1) as u32 }
    }
}
#[allow(static_mut_refs)]
fn fetch(h: &Integrity) -> Result<Vec<u8>> {
    unsafe {
        let mut i = 0;
        while i < CN {
            if h.token as usize == i {
                if let Some(c) = &CONTENT[i] {
                    return Ok(c.clone());
                }
            }
            i += 1;
        }
    }
    Err(Error::EntryNotFound)
}
/// harness-side: is content for this token present?
pub fn has(h: &Integrity) -> bool {
    fetch(h).is_ok()
}

pub async fn write_hash<P: AsRef<Path>, D: AsRef<[u8]>>(_p: P, d: D) -> Result<Integrity> {
    Ok(put(d.as_ref()))
}
pub fn write_hash_sync<P: AsRef<Path>, D: AsRef<[u8]>>(_p: P, d: D) -> Result<Integrity> {
    Ok(put(d.as_ref()))
}
pub async fn read_hash<P: AsRef<Path>>(_p: P, h: &Integrity) -> Result<Vec<u8>> {
    fetch(h)
}
pub fn read_hash_sync<P: AsRef<Path>>(_p: P, h: &Integrity) -> Result<Vec<u8>> {
    fetch(h)
}

pub struct Reader {
    pub data: Vec<u8>,
    pub pos: usize,
}
impl Reader {
    pub async fn open_hash<P: AsRef<Path>>(_p: P, h: Integrity) -> Result<Reader> {
        Ok(Reader { data: fetch(&h)?, pos: 0 })
    }
    /// model replacement for `AsyncReadExt::read_to_string`
    pub async fn read_to_string(&mut self, out: &mut String) -> std::io::Result<usize> {
        match core::str::from_utf8(&self.data[self.pos..]) {
            Ok(s) => {
                out.push_str(s);
                let n = s.len();
                self.pos = self.data.len();
                Ok(n)
            }
            Err(_) => Err(std::io::Error::from(std::io::ErrorKind::InvalidData)),
        }
    }
}
pub struct SyncReader {
    pub data: Vec<u8>,
    pub pos: usize,
}
impl SyncReader {
    pub fn open_hash<P: AsRef<Path>>(_p: P, h: Integrity) -> Result<SyncReader> {
        Ok(SyncReader { data: fetch(&h)?, pos: 0 })
    }
}
impl std::io::Read for SyncReader {
    fn read(&mut self, buf: &mut [u8]) -> std::io::Result<usize> {
        let mut n = 0;
        while n < buf.len() && self.pos < self.data.len() {
            buf[n] = self.data[self.pos];
            n += 1;
            self.pos += 1;
        }
        Ok(n)
    }
}
pub struct Writer {
    buf: Vec<u8>,
}
impl Writer {
    pub async fn write_all(&mut self, d: &[u8]) -> std::io::Result<()> {
        self.buf.extend_from_slice(d);
        Ok(())
    }
    pub async fn commit(self) -> Result<Integrity> {
        Ok(put(&self.buf))
    }
}
pub struct SyncWriter {
    buf: Vec<u8>,
}
impl std::io::Write for SyncWriter {
    fn write(&mut self, d: &[u8]) -> std::io::Result<usize> {
        self.buf.extend_from_slice(d);
        Ok(d.len())
    }
    fn flush(&mut self) -> std::io::Result<()> {
        Ok(())
    }
}
impl SyncWriter {
    pub fn commit(self) -> Result<Integrity> {
        Ok(put(&self.buf))
    }
}
pub struct WriteOpts;
impl WriteOpts {
    pub fn new() -> WriteOpts {
        WriteOpts
    }
    pub async fn open_hash<P: AsRef<Path>>(self, _p: P) -> Result<Writer> {
        Ok(Writer { buf: Vec::new() })
    }
    pub fn open_hash_sync<P: AsRef<Path>>(self, _p: P) -> Result<SyncWriter> {
        Ok(SyncWriter { buf: Vec::new() })
    }
}
