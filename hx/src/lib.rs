//! Harness crate: the REAL xs sources are spliced in by `include!` (read from /repo at
//! build time, so every run sees the current working tree) over an environment model.
#![allow(dead_code, unused_imports, unused_macros, static_mut_refs)]
#![allow(clippy::all)]

#[macro_use]
pub mod env;

/// `format!` seen by the spliced files (textual macro scope covers the modules below,
/// including their out-of-line children such as store/ttl.rs).
macro_rules! format {
    ($fmt:literal $(, $arg:expr)* $(,)?) => {
        $crate::env::fmt::hx_format($fmt, &[$(&$arg as &dyn $crate::env::fmt::HxDisplay),*])
    };
}

/// Declares scenario instances once: a `#[kani::proof]` per instance (solver side) and a
/// `registry()` of the same functions for native replay of counterexamples.
#[macro_export]
macro_rules! scenarios {
    (unwind $u:literal; nul_free_topics; $($name:ident => $e:expr;)*) => {
        #[cfg(kani)]
        mod proofs {
            use super::*;
            $(
                // precondition "topics are NUL-free" placed at the point of use (see memchr_absent)
                #[kani::proof]
                #[kani::unwind($u)]
                #[kani::stub(core::slice::memchr::memchr, crate::store::harness::memchr_absent)]
                fn $name() { $e }
            )*
        }
        pub fn registry() -> Vec<(&'static str, fn())> {
            let mut v: Vec<(&'static str, fn())> = Vec::new();
            $( v.push((stringify!($name), || { $e })); )*
            v
        }
    };
    (unwind $u:literal; $($name:ident => $e:expr;)*) => {
        #[cfg(kani)]
        mod proofs {
            use super::*;
            $(
                #[kani::proof]
                #[kani::unwind($u)]
                fn $name() { $e }
            )*
        }
        pub fn registry() -> Vec<(&'static str, fn())> {
            let mut v: Vec<(&'static str, fn())> = Vec::new();
            $( v.push((stringify!($name), || { $e })); )*
            v
        }
    };
}

pub mod error {
    include!("/repo/src/error.rs");
}

pub mod store {
    #![allow(unused)]
    use crate::env::cacache;
    use crate::env::fjall;
    use crate::env::ssri;
    use crate::env::json as serde_json;
    use crate::env::scru as scru128;
    use crate::env::stdm as std;
    use crate::env::tokio;
    use crate::env::tracing;
    include!("/repo/src/store/mod.rs");
    pub mod harness;
}

pub fn registry() -> Vec<(&'static str, fn())> {
    let mut v = Vec::new();
    v.extend(store::harness::k_keys::registry());
    v.extend(store::harness::o_ops::registry());
    v.extend(store::harness::k_ttl::registry());
    v.extend(store::harness::p_read::registry());
    v.extend(store::harness::p_writers::registry());
    v
}
