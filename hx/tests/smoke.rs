// model state lives in statics: tests that run scenarios must not overlap
static LOCK: std::sync::Mutex<()> = std::sync::Mutex::new(());

#[test]
fn smoke() {
    let _g = LOCK.lock().unwrap_or_else(|e| e.into_inner());
    assert_eq!(hx::store::harness::util::smoke(), 1);
}

#[test]
fn utf8_ok_matches_std() {
    // model validation: the hand validator agrees with std on all 1..3-byte strings (exhaustive) 
    use hx::store::harness::k_keys::utf8_ok;
    for a in 0..=255u8 {
        assert_eq!(utf8_ok(&[a]), std::str::from_utf8(&[a]).is_ok());
        for b in 0..=255u8 {
            assert_eq!(utf8_ok(&[a, b]), std::str::from_utf8(&[a, b]).is_ok());
        }
    }
    for a in [0x00u8, 0x41, 0x7f, 0x80, 0xc1, 0xc2, 0xdf, 0xe0, 0xe1, 0xed, 0xee, 0xef, 0xf0, 0xf1, 0xf4, 0xf5, 0xff] {
        for b in 0..=255u8 {
            for c in 0..=255u8 {
                assert_eq!(utf8_ok(&[a, b, c]), std::str::from_utf8(&[a, b, c]).is_ok());
                for d in [0x00u8, 0x7f, 0x80, 0x8f, 0x90, 0xbf, 0xc0] {
                    assert_eq!(utf8_ok(&[a, b, c, d]), std::str::from_utf8(&[a, b, c, d]).is_ok());
                }
            }
        }
    }
}

#[test]
fn key_order_matches_slice_order() {
    // model validation: word-packed Key comparison / prefix test == byte-slice semantics
    use hx::env::key::Key;
    let mut samples: Vec<Vec<u8>> = vec![vec![], vec![0], vec![0, 0], vec![1], vec![0xff], vec![0, 1], vec![1, 0]];
    let mut x: u64 = 0x9E3779B97F4A7C15;
    for _ in 0..400 {
        x ^= x << 13;
        x ^= x >> 7;
        x ^= x << 17;
        let len = (x % 49) as usize;
        let mut v = Vec::new();
        let mut y = x;
        for _ in 0..len {
            y = y.wrapping_mul(6364136223846793005).wrapping_add(1442695040888963407);
            // few distinct byte values so that long common prefixes are frequent
            v.push([0u8, 1, 0x61, 0xff][((y >> 33) % 4) as usize]);
        }
        samples.push(v);
    }
    for a in &samples {
        for b in &samples {
            let (ka, kb) = (Key::from_slice(a), Key::from_slice(b));
            let want = match a.cmp(b) {
                std::cmp::Ordering::Less => -1,
                std::cmp::Ordering::Equal => 0,
                std::cmp::Ordering::Greater => 1,
            };
            assert_eq!(ka.cmp(&kb), want, "{:?} vs {:?}", a, b);
            assert_eq!(ka == kb, a == b);
            assert_eq!(ka.starts_with(&kb), a.starts_with(b), "{:?} starts_with {:?}", a, b);
            assert_eq!(hx::env::fjall::key_vec(&ka), *a);
        }
    }
}

#[test]
fn format_model_matches_std() {
    // model validation: the positional `{}` formatter equals alloc::fmt::format on the
    // patterns xs uses, at integer boundaries
    use hx::env::fmt::{hx_format, HxDisplay};
    for n in [0u64, 1, 9, 10, 99, 100, 999, 1000, 12345, u32::MAX as u64, u32::MAX as u64 + 1, u64::MAX - 1, u64::MAX] {
        assert_eq!(hx_format("ttl=time:{}", &[&(n as u128) as &dyn HxDisplay]), format!("ttl=time:{}", n as u128));
        assert_eq!(hx_format("time:{}", &[&n as &dyn HxDisplay]), format!("time:{}", n));
        if n <= u32::MAX as u64 {
            assert_eq!(hx_format("head:{}", &[&(n as u32) as &dyn HxDisplay]), format!("head:{}", n as u32));
        }
    }
    assert_eq!(hx_format("{}.register", &[&"abc".to_string() as &dyn HxDisplay]), "abc.register");
    assert_eq!(hx_format("{}{}", &[&"abc" as &dyn HxDisplay, &".out" as &dyn HxDisplay]), "abc.out");
}

#[test]
fn all_scenarios_run_natively_on_zero_script() {
    let _g = LOCK.lock().unwrap_or_else(|e| e.into_inner());
    // every scenario must at least execute natively (all choices zero) without a check failing
    for (name, f) in hx::registry() {
        if name.starts_with("dbg_") {
            continue;
        }
        hx::env::nd::native::load(Vec::new());
        let _ = std::panic::catch_unwind(f);
        if hx::env::nd::native::assume_failed() || hx::env::nd::native::tags().iter().any(|t| t.starts_with("KF-")) {
            continue; // cut path, or a shape listed in known_findings.json
        }
        assert!(hx::env::nd::native::fails().is_empty(), "{} fails on the zero script: {:?}", name, hx::env::nd::native::fails());
    }
}

#[test]
fn scenarios_hold_natively_on_biased_random_scripts() {
    let _g = LOCK.lock().unwrap_or_else(|e| e.into_inner());
    // Not a deciding step (the solver is): a cheap native sweep that catches oracle mistakes in the
    // scenario functions before solver time is spent, and validates the model on many concrete runs.
    let mut x: u64 = 0x2545F4914F6CDD1D;
    let mut rnd = move || {
        x ^= x << 13;
        x ^= x >> 7;
        x ^= x << 17;
        x
    };
    let mut bad = 0;
    let known: &[&str] = &["C07 the set of usable contexts is the same before and after a reopen, however the frames got there"];
    for (name, f) in hx::registry() {
        if name.starts_with("dbg_") {
            continue;
        }
        let mut ran = 0;
        for _ in 0..3000 {
            let mut script = Vec::new();
            for _ in 0..64 {
                let r = rnd();
                let v: u128 = match r % 8 {
                    0 => 0,
                    1 => 1,
                    2 => 2,
                    3 => 0x61,
                    4 => 0x62,
                    5 => (r >> 8) as u128 % 5,
                    6 => 0x78,
                    _ => (r >> 8) as u128 % 300,
                };
                script.push(v.to_le_bytes().to_vec());
            }
            hx::env::nd::native::load(script.clone());
            let r = std::panic::catch_unwind(f);
            if hx::env::nd::native::assume_failed() {
                continue;
            }
            ran += 1;
            if !hx::env::nd::native::fails().is_empty() {
                let js: Vec<Vec<u8>> = script.clone();
                std::fs::write(format!("/verif/.target/logs/native-fail-{}.json", name), serde_json::to_string(&js).unwrap()).unwrap();
            }
            let fails: Vec<_> = hx::env::nd::native::fails().into_iter().filter(|m| !known.contains(m)).collect();
            if hx::env::nd::native::tags().iter().any(|t| t.starts_with("KF-")) {
                continue; // a shape listed in known_findings.json
            }
            if !fails.is_empty() {
                eprintln!("NATIVE-FAIL {} {:?} tags={:?}", name, fails, hx::env::nd::native::tags());
                bad += 1;
                break;
            }
            if let Err(e) = &r {
                let msg = e.downcast_ref::<String>().cloned().or_else(|| e.downcast_ref::<&str>().map(|s| s.to_string())).unwrap_or_default();
                assert!(hx::env::nd::native::fails().len() > 0, "{} panicked natively: {}", name, msg);
            }
        }
        eprintln!("{:40} {} valid native runs", name, ran);
    }
    assert_eq!(bad, 0, "scenarios failing natively (see NATIVE-FAIL lines)");
}
