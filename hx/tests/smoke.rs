#[test]
fn smoke() {
    assert_eq!(hx::store::harness::util::smoke(), 1);
}

#[test]
fn utf8_ok_matches_std() {
    // model validation: the hand validator agrees with std on all 1..3-byte strings (exhaustive) 
    use hx::store::harness::k_keys::utf8_ok;
    for a in 0..=255u8 {
        assert_eq!(utf8_ok(&[a]), std::str::from_utf8(&[a]).is_ok());
        for b in 0..=255u8 {
            assert_eq!(utf8_ok(&[a, b]), std::str::from_utf8(&[a, b]).is_ok());
        }
    }
    for a in [0x00u8, 0x41, 0x7f, 0x80, 0xc1, 0xc2, 0xdf, 0xe0, 0xe1, 0xed, 0xee, 0xef, 0xf0, 0xf1, 0xf4, 0xf5, 0xff] {
        for b in 0..=255u8 {
            for c in 0..=255u8 {
                assert_eq!(utf8_ok(&[a, b, c]), std::str::from_utf8(&[a, b, c]).is_ok());
                for d in [0x00u8, 0x7f, 0x80, 0x8f, 0x90, 0xbf, 0xc0] {
                    assert_eq!(utf8_ok(&[a, b, c, d]), std::str::from_utf8(&[a, b, c, d]).is_ok());
                }
            }
        }
    }
}

#[test]
fn key_order_matches_slice_order() {
    // model validation: word-packed Key comparison / prefix test == byte-slice semantics
    use hx::env::key::Key;
    let mut samples: Vec<Vec<u8>> = vec![vec![], vec![0], vec![0, 0], vec![1], vec![0xff], vec![0, 1], vec![1, 0]];
    let mut x: u64 = 0x9E3779B97F4A7C15;
    for _ in 0..400 {
        x ^= x << 13;
        x ^= x >> 7;
        x ^= x << 17;
        let len = (x % 49) as usize;
        let mut v = Vec::new();
        let mut y = x;
        for _ in 0..len {
            y = y.wrapping_mul(6364136223846793005).wrapping_add(1442695040888963407);
            // few distinct byte values so that long common prefixes are frequent
            v.push([0u8, 1, 0x61, 0xff][((y >> 33) % 4) as usize]);
        }
        samples.push(v);
    }
    for a in &samples {
        for b in &samples {
            let (ka, kb) = (Key::from_slice(a), Key::from_slice(b));
            let want = match a.cmp(b) {
                std::cmp::Ordering::Less => -1,
                std::cmp::Ordering::Equal => 0,
                std::cmp::Ordering::Greater => 1,
            };
            assert_eq!(ka.cmp(&kb), want, "{:?} vs {:?}", a, b);
            assert_eq!(ka == kb, a == b);
            assert_eq!(ka.starts_with(&kb), a.starts_with(b), "{:?} starts_with {:?}", a, b);
            assert_eq!(hx::env::fjall::key_vec(&ka), *a);
        }
    }
}

#[test]
fn format_model_matches_std() {
    // model validation: the positional `{}` formatter equals alloc::fmt::format on the
    // patterns xs uses, at integer boundaries
    use hx::env::fmt::{hx_format, HxDisplay};
    for n in [0u64, 1, 9, 10, 99, 100, 999, 1000, 12345, u32::MAX as u64, u32::MAX as u64 + 1, u64::MAX - 1, u64::MAX] {
        assert_eq!(hx_format("ttl=time:{}", &[&(n as u128) as &dyn HxDisplay]), format!("ttl=time:{}", n as u128));
        assert_eq!(hx_format("time:{}", &[&n as &dyn HxDisplay]), format!("time:{}", n));
        if n <= u32::MAX as u64 {
            assert_eq!(hx_format("head:{}", &[&(n as u32) as &dyn HxDisplay]), format!("head:{}", n as u32));
        }
    }
    assert_eq!(hx_format("{}.register", &[&"abc".to_string() as &dyn HxDisplay]), "abc.register");
    assert_eq!(hx_format("{}{}", &[&"abc" as &dyn HxDisplay, &".out" as &dyn HxDisplay]), "abc.out");
}

#[test]
fn all_scenarios_run_natively_on_zero_script() {
    // every scenario must at least execute natively (all choices zero) without a check failing
    for (name, f) in hx::registry() {
        if name.starts_with("dbg_") {
            continue;
        }
        hx::env::nd::native::load(Vec::new());
        let _ = std::panic::catch_unwind(f);
        if hx::env::nd::native::assume_failed() {
            continue;
        }
        assert!(hx::env::nd::native::fails().is_empty(), "{} fails on the zero script: {:?}", name, hx::env::nd::native::fails());
    }
}
