//! No-op replacement for `#[tracing::instrument]` (logging has no semantic effect).
use proc_macro::TokenStream;

#[proc_macro_attribute]
pub fn instrument(_attr: TokenStream, item: TokenStream) -> TokenStream {
    item
}
