"""Harness registry: which Kani harness instances decide which property, at which tier."""

COMMON_TRUSTED = [
    "Kani 0.68.0 / CBMC 6.11.0 / cadical (compiler, symbolic execution, SAT)",
    "rustc MIR semantics as modelled by Kani; std/alloc/core code reached from the harness is the real code",
    "environment model /verif/hx/src/env (DESIGN.md section 2.3); every stub listed there is part of the claim",
]

KK = "store::harness::k_keys"


def inst(mod, names, tier="quick", kind="K", bounds=""):
    return [{"mod": mod, "name": n, "tier": tier, "kind": kind, "bounds": bounds} for n in names]


def prefix_names(pairs):
    return [f"k_prefix_exact_{a}_{b}" for a, b in pairs]


REG = {}

REG["C05"] = {
    "functions": ["store::idx_topic_key_prefix", "store::idx_topic_key_from_frame",
                  "store::idx_topic_frame_id_from_key"],
    "bounds": "topic byte lengths 0..=4 (every well-formed UTF-8 string of that length, NUL-free), "
              "all u128 context ids and frame ids; unwind 40",
    "outside": "topics longer than 4 bytes (the key lemma is length-generic by inspection only)",
    "assumptions": ["topics are well-formed UTF-8 (Rust String invariant), validated by a hand-written "
                    "validator cross-checked against std natively"],
    "harnesses":
        inst(KK, prefix_names([(0, 0), (0, 1), (1, 0), (1, 1), (1, 2), (2, 1), (2, 2)]), "quick", "K",
             "concrete topic lengths (L1,L2), symbolic bytes/ids")
        + inst(KK, prefix_names([(2, 3), (3, 2), (3, 3), (0, 3), (3, 0), (1, 3), (3, 1), (0, 2), (2, 0),
                                 (4, 4), (3, 4), (4, 3)]), "thorough", "K",
               "concrete topic lengths (L1,L2), symbolic bytes/ids")
        + inst(KK, ["k_nul_rejected_1", "k_nul_rejected_2"], "quick", "K", "topic length L, NUL at any position")
        + inst(KK, ["k_nul_rejected_3", "k_nul_rejected_4"], "thorough", "K", "topic length L, NUL at any position"),
}

REG["DBG"] = {
    "harnesses": inst("store::harness::dbg", ["dbg_fail_1", "dbg_unwind_1", "dbg_slow_1"]),
    "timeout": {"quick": 20, "thorough": 20},
}
