#!/usr/bin/env python3
import sys, time
t0 = time.time()
for line in sys.stdin:
    sys.stdout.write("%7.1f %s" % (time.time() - t0, line[:400] if len(line) > 400 else line))
    sys.stdout.flush()
