#!/usr/bin/env python3
import re,sys
out=open(sys.argv[1]).read()
cur={}
blocks=re.split(r"^Thread (\d+): ?", out, flags=re.M)
for i in range(1,len(blocks)-1,2):
    tid,text=blocks[i],blocks[i+1]
    m=re.match(r"Checking harness (\S+?)\.\.\.",text)
    if m: cur[tid]=m.group(1).split("::")[-1]; continue
    if text.strip().startswith('- Stub') or not cur.get(tid): continue
    st="OK" if "SUCCESSFUL" in text else ("TIMEOUT" if "timed out" in text else "FAIL")
    t=re.search(r"Verification Time: ([0-9.]+)",text)
    c=re.search(r"(\d+) of (\d+) cover",text)
    f=re.findall(r"Failed Checks: (.*)",text)
    print(f"{cur.get(tid):34s} {st:8s} {t.group(1)[:6] if t else '':8s} covers={c.group(0)[:8] if c else '':8s} {[x[:100] for x in f[:4]]}")
    cur[tid]=None
print("running:", [v for k,v in cur.items() if v])
