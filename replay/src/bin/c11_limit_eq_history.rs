//! Replay on the REAL crate of the counterexample found by p_limit_*: a following read with
//! limit = n over a history of exactly n matching frames. The n frames come from the replay;
//! the stream must then end (C11). Exit 1 = an (n+1)-th frame is delivered / stream stays open.
use std::time::Duration;
use xs::store::{FollowOption, Frame, ReadOptions, Store, ZERO_CONTEXT};

#[tokio::main]
async fn main() {
    let dir = tempfile::tempdir().unwrap();
    let store = Store::new(dir.path().to_path_buf());
    store.append(Frame::builder("a", ZERO_CONTEXT).build()).unwrap();
    store.append(Frame::builder("a", ZERO_CONTEXT).build()).unwrap();
    let mut rx = store
        .read(ReadOptions::builder().follow(FollowOption::On).limit(2).build())
        .await;
    let mut n = 0;
    // the two historical frames
    for _ in 0..2 {
        if let Ok(Some(_)) = tokio::time::timeout(Duration::from_millis(1000), rx.recv()).await {
            n += 1;
        }
    }
    tokio::time::sleep(Duration::from_millis(200)).await;
    store.append(Frame::builder("a", ZERO_CONTEXT).build()).unwrap();
    let mut ended = false;
    loop {
        match tokio::time::timeout(Duration::from_millis(1000), rx.recv()).await {
            Ok(Some(_)) => n += 1,
            Ok(None) => {
                ended = true;
                break;
            }
            Err(_) => break,
        }
    }
    println!("limit=2 delivered={} stream_ended={}", n, ended);
    if n != 2 || !ended {
        println!("REPRODUCED: limit=n over a history of n frames delivers n+1 frames / does not end");
        std::process::exit(1);
    }
}
