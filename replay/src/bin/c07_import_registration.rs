//! Replay on the REAL crate of the counterexample of o_registry_after_import_10: an `xs.context`
//! registration frame arrives by IMPORT (Store::insert_frame, the POST /import path). The
//! context is unusable until the store is reopened, then usable: the set of usable contexts is
//! not a function of the stored frames alone (C07, C20). Exit 1 = behaviour differs across reopen.
use xs::store::{Frame, Store, TTL, ZERO_CONTEXT};

fn main() {
    let dir = tempfile::tempdir().unwrap();
    let ctx_id = scru128::new();
    let before;
    {
        let store = Store::new(dir.path().to_path_buf());
        let reg = Frame::builder("xs.context", ZERO_CONTEXT).id(ctx_id).ttl(TTL::Forever).build();
        store.insert_frame(&reg).unwrap();
        before = store.append(Frame::builder("a", ctx_id).build()).is_ok();
    }
    // fjall keeps a lock on the directory until every handle is gone
    std::thread::sleep(std::time::Duration::from_millis(300));
    let store = Store::new(dir.path().to_path_buf());
    let after = store.append(Frame::builder("a", ctx_id).build()).is_ok();
    println!("append into imported context: before reopen ok={} after reopen ok={}", before, after);
    if before != after {
        println!("REPRODUCED: usable contexts differ before and after reopen");
        std::process::exit(1);
    }
}
