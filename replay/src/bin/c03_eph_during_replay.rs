//! Replay on the REAL crate (real fjall, tokio, cacache) of the schedule found by p_follow_*_2:
//! a follower is replaying history; while its replay is stalled an EPHEMERAL frame E and then a
//! STORED frame S are appended. The scan (a live view) picks S up, the live task then drops E
//! because E.id <= last scanned id. Exit 1 = E lost (property C03 violated), 0 = E delivered.
use std::time::Duration;
use xs::store::{FollowOption, Frame, ReadOptions, Store, TTL, ZERO_CONTEXT};

#[tokio::main]
async fn main() {
    let dir = tempfile::tempdir().unwrap();
    let store = Store::new(dir.path().to_path_buf());
    // history longer than the 100-slot delivery buffer so that the replay stalls
    for _ in 0..150 {
        store.append(Frame::builder("a", ZERO_CONTEXT).build()).unwrap();
    }
    let mut rx = store.read(ReadOptions::builder().follow(FollowOption::On).build()).await;
    // let the history thread fill the buffer and block
    tokio::time::sleep(Duration::from_millis(300)).await;
    let e = store.append(Frame::builder("a", ZERO_CONTEXT).ttl(TTL::Ephemeral).build()).unwrap();
    let s = store.append(Frame::builder("a", ZERO_CONTEXT).build()).unwrap();
    let mut got_e = false;
    let mut got_s = 0;
    let mut n = 0;
    loop {
        match tokio::time::timeout(Duration::from_millis(1500), rx.recv()).await {
            Ok(Some(f)) => {
                n += 1;
                if f.id == e.id {
                    got_e = true;
                }
                if f.id == s.id {
                    got_s += 1;
                }
            }
            _ => break,
        }
    }
    println!("delivered={} ephemeral_delivered={} stored_delivered={}", n, got_e, got_s);
    if !got_e || got_s != 1 {
        println!("REPRODUCED: frame appended after subscription was not delivered exactly once");
        std::process::exit(1);
    }
}
