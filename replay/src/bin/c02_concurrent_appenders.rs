//! Replay on the REAL crate of the schedule found by p_two_writers: several threads append
//! concurrently (id assignment, commit+fsync and broadcast are separate steps in Store::append)
//! while a follower watches the broadcast order and a client polls with last-id.
//! Exit 1 = a subscriber saw decreasing ids, or the last-id poller missed a stored frame.
use std::collections::HashSet;
use std::time::{Duration, Instant};
use xs::store::{FollowOption, Frame, ReadOptions, Store, ZERO_CONTEXT};

#[tokio::main(flavor = "multi_thread", worker_threads = 4)]
async fn main() {
    let dir = tempfile::tempdir().unwrap();
    let store = Store::new(dir.path().to_path_buf());
    let writers = 8;
    let per = 150;
    let mut rx = store
        .read(ReadOptions::builder().follow(FollowOption::On).tail(true).build())
        .await;
    let mut hs = Vec::new();
    for w in 0..writers {
        let s = store.clone();
        hs.push(std::thread::spawn(move || {
            for _ in 0..per {
                s.append(Frame::builder(format!("w{}", w), ZERO_CONTEXT).build()).unwrap();
            }
        }));
    }
    // last-id poller
    let sp = store.clone();
    let poller = std::thread::spawn(move || {
        let mut last = None;
        let mut seen = HashSet::new();
        let t0 = Instant::now();
        while seen.len() < writers * per && t0.elapsed() < Duration::from_secs(60) {
            let got: Vec<_> = sp.read_sync(last.as_ref(), None, None).collect();
            for f in got {
                seen.insert(f.id);
                last = Some(f.id);
            }
            if t0.elapsed() > Duration::from_secs(20) && seen.len() < writers * per {
                // writers are long done: whatever is missing will never be returned
                std::thread::sleep(Duration::from_millis(500));
                let got: Vec<_> = sp.read_sync(last.as_ref(), None, None).collect();
                if got.is_empty() {
                    break;
                }
            }
        }
        seen.len()
    });
    let mut inversions = 0;
    let mut prev = None;
    let mut n = 0;
    while n < writers * per {
        match tokio::time::timeout(Duration::from_secs(20), rx.recv()).await {
            Ok(Some(f)) => {
                if let Some(p) = prev {
                    if f.id <= p {
                        inversions += 1;
                    }
                }
                prev = Some(f.id);
                n += 1;
            }
            _ => break,
        }
    }
    for h in hs {
        h.join().unwrap();
    }
    let polled = poller.join().unwrap();
    println!("broadcast_received={} order_inversions={} poller_saw={}/{}", n, inversions, polled, writers * per);
    if inversions > 0 || polled != writers * per {
        println!("REPRODUCED: concurrent appenders break append-only visibility / broadcast order");
        std::process::exit(1);
    }
}
